"""Shared Hypothesis strategies.  All cases are JSON-able (datetimes as 7-lists)."""
import calendar
import datetime as dt

from hypothesis import strategies as st


def mdays(y, m):
    return calendar.monthrange(y, m)[1]


def to_dt(t):
    return dt.datetime(*t)


def from_dt(d):
    return [d.year, d.month, d.day, d.hour, d.minute, d.second, d.microsecond]


def years(lo=1, hi=9999):
    parts = [st.integers(lo, hi)]
    for a, b in ((1, 99), (100, 999), (1000, 1582), (1900, 2100), (lo, lo), (hi, hi)):
        a2, b2 = max(a, lo), min(b, hi)
        if a2 <= b2:
            parts.append(st.integers(a2, b2))
    return st.one_of(parts)


@st.composite
def dates(draw, lo=1, hi=9999):
    y = draw(years(lo, hi))
    m = draw(st.integers(1, 12))
    last = mdays(y, m)
    d = draw(st.one_of(st.just(1), st.just(28), st.just(last), st.just(min(29, last)),
                       st.integers(1, last)))
    return [y, m, d]


hours = st.one_of(st.sampled_from([0, 11, 12, 13, 23]), st.integers(0, 23))
minsec = st.one_of(st.sampled_from([0, 59]), st.integers(0, 59))
micros = st.one_of(st.sampled_from([0, 1, 10, 100, 1000, 10000, 100000, 500000, 999999, 999000, 120000]),
                   st.integers(0, 999999))


@st.composite
def datetimes(draw, lo=1, hi=9999, us=True):
    y, m, d = draw(dates(lo, hi))
    return [y, m, d, draw(hours), draw(minsec), draw(minsec), draw(micros) if us else 0]


@st.composite
def ref_times(draw, lo=1800, hi=2200):
    """Reference times: over-weight first/last two days of month/year, leap days, midnight."""
    y = draw(years(lo, hi))
    kind = draw(st.integers(0, 9))
    if kind == 0:
        m, d = draw(st.sampled_from([(1, 1), (1, 2), (12, 30), (12, 31)]))
    elif kind == 1 and calendar.isleap(y):
        m, d = 2, 29
    elif kind in (2, 3, 4):
        m = draw(st.integers(1, 12))
        last = mdays(y, m)
        d = draw(st.sampled_from([1, 2, last - 1, last]))
    else:
        m = draw(st.integers(1, 12))
        d = draw(st.integers(1, mdays(y, m)))
    if draw(st.integers(0, 5)) == 0:
        h = mi = s = 0
    else:
        h, mi, s = draw(hours), draw(minsec), draw(minsec)
    us = draw(st.sampled_from([0, 0, 0, 1, 999999, 123456]))
    return [y, m, d, h, mi, s, us]


def day_class(t):
    y, m, d = t[:3]
    out = []
    if d == mdays(y, m):
        out.append("month-end")
    if (m, d) == (2, 29):
        out.append("leap-day")
    if y < 1000:
        out.append("year<1000")
    if y > 2100:
        out.append("year>2100")
    if len(t) > 3:
        if t[3] == 0 and t[4] == 0:
            out.append("midnight")
        if t[3] == 12:
            out.append("noon-hour")
        if t[5] == 59:
            out.append("second-59")
    return out
