"""Shared runner: stages (Hypothesis-driven or enumerated) over 16 forked workers,
collect-then-shrink with root-cause buckets, known findings, evidence, exit protocol.

A check module (checks/cXX.py) defines

    ID, RULE, ASSUMPTIONS, LEVEL (default 'exploration')
    check_case(case) -> dict     pure function of (tree, case):
          {'ok': bool,
           'bucket': str      (only when not ok: root-cause key),
           'detail': str      (only when not ok),
           'key': hashable or None   (non-trivial distinct key, None = trivial case),
           'cls': iterable of labels (generator-distribution classes),
           'skip': str or absent     (case was outside the property's domain; counted)}
    stages(ctx) -> list of Stage
    ESSENTIAL = [class labels that must be non-empty, else exit 2]

Exit codes: 0 held, 1 violation(s) (one VIOLATION line per unlisted bucket), 2 harness error.
"""

import collections
import hashlib
import json
import multiprocessing
import os
import sys
import time
import traceback

VERIF = os.path.dirname(os.path.dirname(os.path.abspath(__file__)))
REPO = os.environ.get("VERIF_REPO", "/repo")
NWORKERS = int(os.environ.get("VERIF_WORKERS", "16"))
MAX_BUCKETS = 8


class HarnessError(Exception):
    pass


class _Violation(Exception):
    pass


class Stage:
    """kind='hyp': strategy + examples; kind='enum': cases = list or callable(shard, nshards)->iterable."""

    def __init__(self, name, kind, strategy=None, examples=0, cases=None, workers=None,
                 exhaustive=False, check=None):
        self.name = name
        self.kind = kind
        self.strategy = strategy
        self.examples = examples
        self.cases = cases
        self.workers = workers
        self.exhaustive = exhaustive
        self.check = check  # optional stage-specific check function


class Ctx:
    def __init__(self, prop, tier, seed):
        self.prop = prop
        self.tier = tier
        self.seed = seed
        self.quick = tier == "quick"

    def n(self, quick, thorough):
        return quick if self.quick else thorough


def derive_seed(*parts):
    h = hashlib.blake2b(repr(parts).encode(), digest_size=8).digest()
    return int.from_bytes(h, "big") % (2 ** 62)


def khash(key):
    return hashlib.blake2b(repr(key).encode(), digest_size=8).digest()


class Stats:
    def __init__(self):
        self.evaluations = 0
        self.keys = set()
        self.classes = collections.Counter()
        self.skips = collections.Counter()
        self.excluded = collections.Counter()
        self.samples = []
        self.nt_samples = []
        self.failures = {}  # bucket -> (case, detail)
        self.budget_hit = False
        self.notes = []

    def record(self, case, r, want_samples=True):
        self.evaluations += 1
        sk = r.get("skip")
        if sk:
            self.skips[sk] += 1
        k = r.get("key")
        if k is not None:
            self.keys.add(khash(k))
            # samples are taken at spread-out positions (a generator's first cases are its minimal ones)
            if want_samples and len(self.nt_samples) < 3 and self.evaluations % 53 == 7:
                self.nt_samples.append(case)
        for c in r.get("cls", ()):
            self.classes[c] += 1
        if want_samples and len(self.samples) < 2 and (self.evaluations == 1 or self.evaluations % 101 == 50):
            self.samples.append(case)

    def merge(self, o):
        self.evaluations += o.evaluations
        self.keys |= o.keys
        self.classes.update(o.classes)
        self.skips.update(o.skips)
        self.excluded.update(o.excluded)
        if len(self.samples) < 6:
            self.samples.extend(o.samples[: 6 - len(self.samples)])
        if len(self.nt_samples) < 8:
            self.nt_samples.extend(o.nt_samples[: 8 - len(self.nt_samples)])
        for b, v in o.failures.items():
            self.failures.setdefault(b, v)
        self.budget_hit = self.budget_hit or o.budget_hit
        self.notes.extend(o.notes)


class Known:
    """known_findings.json: entries {property, status: known|fixed, bucket, what, [commit]}.
    Only status == 'known' suppresses; 'fixed' entries suppress nothing."""

    def __init__(self, prop):
        path = os.path.join(VERIF, "known_findings.json")
        self.entries = []
        if os.path.exists(path):
            with open(path) as f:
                data = json.load(f)
            self.entries = [e for e in data.get("findings", []) if e["property"] == prop]
        self.known = {e["bucket"]: e for e in self.entries if e["status"] == "known"}

    def is_known(self, bucket):
        return bucket in self.known


def _call_check(check, case):
    try:
        r = check(case)
    except HarnessError:
        raise
    except Exception as e:
        # an exception that escapes from the code under test while a check calls it is a finding about that code (the
        # properties promise values or documented exceptions that the checks handle themselves), never a harness crash;
        # an exception raised by the harness' own code is a harness error.
        tb = traceback.extract_tb(e.__traceback__)
        root = os.path.realpath(REPO) + os.sep
        lib = [f for f in tb if os.path.realpath(f.filename).startswith(root)]
        if not lib or (tb and not os.path.realpath(tb[-1].filename).startswith(root)
                       and "site-packages" not in tb[-1].filename and "/lib/python" not in tb[-1].filename
                       and "/verif/vlib/clock.py" not in tb[-1].filename):
            raise HarnessError("check raised %s: %s\n%s" % (type(e).__name__, e, "".join(traceback.format_tb(e.__traceback__)[-6:])))
        f = lib[-1]
        return {"ok": False, "bucket": "raises:%s:%s:%s" % (type(e).__name__, os.path.basename(f.filename), f.name),
                "detail": "the library raised %s: %s at %s:%d (%s) for case %r"
                          % (type(e).__name__, str(e)[:200], f.filename, f.lineno, f.name, case),
                "key": None, "cls": ["library-exception"]}
    if not isinstance(r, dict) or "ok" not in r:
        raise HarnessError("check_case returned %r" % (r,))
    return r


def _worker_hyp(check, strategy, n, seed, known, budget_s, shrink):
    import hypothesis
    from hypothesis import HealthCheck, Phase, given, settings

    st = Stats()
    skip = set(known)
    t0 = time.time()
    done = [0]
    attempt = 0
    while n - done[0] > 0 and len(st.failures) < MAX_BUCKETS:
        holder = {}
        phases = [Phase.explicit, Phase.generate] + ([Phase.shrink] if shrink else [])

        @settings(max_examples=n - done[0], database=None, deadline=None,
                  report_multiple_bugs=False, suppress_health_check=list(HealthCheck),
                  phases=phases, print_blob=False, verbosity=hypothesis.Verbosity.quiet)
        @hypothesis.seed(derive_seed(seed, attempt))
        @given(strategy)
        def test(case):
            if budget_s and time.time() - t0 > budget_s and "last" not in holder:
                st.budget_hit = True
                return
            r = _call_check(check, case)
            if "last" not in holder:
                done[0] += 1
                st.record(case, r)
            if not r["ok"]:
                b = r["bucket"]
                if b in skip:
                    if "last" not in holder:
                        st.excluded[b] += 1
                    return
                holder["last"] = (case, r)
                raise _Violation(b)

        try:
            test()
        except _Violation:
            case, r = holder["last"]
            st.failures[r["bucket"]] = (case, r.get("detail", ""))
            skip.add(r["bucket"])
            attempt += 1
            continue
        except hypothesis.errors.Unsatisfiable as e:
            raise HarnessError("generator unsatisfiable: %s" % e)
        except hypothesis.errors.Flaky:
            # the case failed once and passed when replayed: its outcome depends on process state left by
            # earlier cases.  Keep the case (the parent re-confirms it in a fresh process) and go on.
            if "last" not in holder:
                raise
            case, r = holder["last"]
            st.failures[r["bucket"]] = (case, "[not reproduced on immediate replay: state-dependent] " + r.get("detail", ""))
            st.notes.append("flaky:" + r["bucket"])
            skip.add(r["bucket"])
            attempt += 1
            continue
        break
    return st


def _worker_enum(check, cases, known):
    st = Stats()
    skip = set(known)
    for case in cases:
        r = _call_check(check, case)
        st.record(case, r)
        if not r["ok"]:
            b = r["bucket"]
            if b in skip:
                st.excluded[b] += 1
            elif b not in st.failures and len(st.failures) < 64:
                st.failures[b] = (case, r.get("detail", ""))
            else:
                st.excluded["(repeat)" + b] += 1
    return st


def _worker_entry(args):
    mod_name, stage_name, shard, nshards, seed, tier, known, budget_s = args
    try:
        import importlib
        mod = importlib.import_module(mod_name)
        ctx = Ctx(mod.ID, tier, seed)
        if hasattr(mod, "worker_init"):
            mod.worker_init(ctx)
        stage = [s for s in mod.stages(ctx) if s.name == stage_name][0]
        check = stage.check or mod.check_case
        if stage.kind == "hyp":
            n = stage.examples // nshards + (1 if shard < stage.examples % nshards else 0)
            if n == 0:
                return Stats()
            return _worker_hyp(check, stage.strategy, n,
                               derive_seed(seed, stage_name, shard), known, budget_s,
                               shrink=True)
        else:
            cases = stage.cases
            if callable(cases):
                it = cases(shard, nshards)
            else:
                it = (c for i, c in enumerate(cases) if i % nshards == shard)
            return _worker_enum(check, it, known)
    except BaseException:
        return ("ERROR", traceback.format_exc())


def jsonable(x):
    try:
        json.dumps(x)
        return x
    except (TypeError, ValueError):
        return json.loads(json.dumps(x, default=repr))


def run_check(mod, tier, seed, replay=None):
    t0 = time.time()
    prop = mod.ID
    ctx = Ctx(prop, tier, seed)
    known = Known(prop)
    check = mod.check_case

    if replay:
        with open(replay) as f:
            doc = json.load(f)
        if hasattr(mod, "worker_init"):
            mod.worker_init(ctx)
        fn = check
        sname = doc.get("stage")
        if sname:
            for s in mod.stages(ctx):
                if s.name == sname and s.check:
                    fn = s.check
        r = _call_check(fn, doc["case"])
        print(json.dumps({"ok": r["ok"], "bucket": r.get("bucket"), "detail": r.get("detail")},
                         ensure_ascii=False, default=repr))
        if not r["ok"]:
            if known.is_known(r["bucket"]):
                print("KNOWN-FINDING: property=%s %s" % (prop, known.known[r["bucket"]]["what"]))
                return 0
            print("VIOLATION property=%s replay=%s" % (prop, replay))
            return 1
        return 0

    # stale replay files of earlier runs of this property are removed so the directory reflects this run
    rdir = os.path.join(VERIF, "replays")
    if os.path.isdir(rdir):
        for fn in os.listdir(rdir):
            if fn.startswith(prop + "-") and fn.endswith(".json"):
                os.remove(os.path.join(rdir, fn))
    total = Stats()
    fail_stage = {}
    per_stage = {}
    exhaustive_all = True

    # 1. regression replays (seconds-long tier)
    regdir = os.path.join(VERIF, "regressions", prop)
    reg_count = 0
    if os.path.isdir(regdir) and not os.environ.get("VERIF_NO_REGRESSIONS"):  # (developer switch: measure what the generators find alone)
        if hasattr(mod, "worker_init"):
            pass  # regressions run in a forked child so the parent stays clean
        files = sorted(f for f in os.listdir(regdir) if f.endswith(".json"))
        if files:
            with multiprocessing.get_context("fork").Pool(1) as pool:
                out = pool.apply(_run_regressions, (mod.__name__, tier, seed, regdir, files,
                                                    list(known.known)))
            if isinstance(out, tuple) and out and out[0] == "ERROR":
                raise HarnessError("regression replay crashed:\n" + out[1])
            reg_count = out.evaluations
            total.merge(out)
            per_stage["regressions"] = {"evaluations": out.evaluations}

    # 2. stages
    budget_s = float(os.environ.get("VERIF_BUDGET_S", "0")) or getattr(mod, "BUDGET_S", {}).get(tier, 0)
    stage_list = mod.stages(ctx)
    only = os.environ.get("VERIF_ONLY_STAGES")  # developer switch (never set by the registered commands)
    if only:
        stage_list = [s_ for s_ in stage_list if s_.name in only.split(",")]
    for stage in stage_list:
        ts = time.time()
        nw = stage.workers or NWORKERS
        if stage.kind == "hyp":
            nw = max(1, min(nw, stage.examples))
        args = [(mod.__name__, stage.name, i, nw, seed, tier, list(known.known), budget_s)
                for i in range(nw)]
        with multiprocessing.get_context("fork").Pool(nw) as pool:
            outs = pool.map(_worker_entry, args, chunksize=1)
        sst = Stats()
        for o in outs:
            if isinstance(o, tuple) and o and o[0] == "ERROR":
                raise HarnessError("worker crashed in stage %s:\n%s" % (stage.name, o[1]))
            sst.merge(o)
        per_stage[stage.name] = {
            "kind": stage.kind, "evaluations": sst.evaluations,
            "distinct_nontrivial": len(sst.keys), "wall_s": round(time.time() - ts, 2),
            "exhaustive": bool(stage.exhaustive),
        }
        if not stage.exhaustive:
            exhaustive_all = False
        for b in sst.failures:
            fail_stage.setdefault(b, stage.name)
        total.merge(sst)

    # 3. optional extra phase in the parent (e.g. subprocess validation)
    extra = None
    if hasattr(mod, "extra_phase"):
        extra = mod.extra_phase(ctx, known, total)

    # 3b. optional re-confirmation of every failure in a freshly forked process
    if getattr(mod, "CONFIRM_IN_FRESH_CHILD", False):
        for b in sorted(total.failures):
            if known.is_known(b):
                continue
            case, detail = total.failures[b]
            with multiprocessing.get_context("fork").Pool(1) as pool:
                out = pool.apply(_confirm, (mod.__name__, fail_stage.get(b), case, tier, seed))
            if out == "ok":
                total.notes.append("not reproduced in a fresh process (history-dependent, see C03): %s | %s" % (b, str(detail)[:300]))
                total.classes["unconfirmed-in-fresh-process"] += 1
                del total.failures[b]
            elif isinstance(out, tuple):
                raise HarnessError("confirmation crashed:\n" + out[1])

    # 4. verdict
    violations = []
    os.makedirs(os.path.join(VERIF, "replays"), exist_ok=True)
    for b, (case, detail) in sorted(total.failures.items()):
        if known.is_known(b):
            total.excluded[b] += 1
            continue
        safe = hashlib.blake2b(b.encode(), digest_size=6).hexdigest()
        path = os.path.join("replays", "%s-%s.json" % (prop, safe))
        stage_name = fail_stage.get(b)
        with open(os.path.join(VERIF, path), "w") as f:
            json.dump({"property": prop, "bucket": b, "detail": detail, "stage": stage_name,
                       "case": jsonable(case), "seed": seed, "tier": tier}, f, ensure_ascii=False,
                      indent=1, default=repr)
        violations.append((b, path, detail))

    # vacuity guard
    missing = [c for c in getattr(mod, "ESSENTIAL", []) if total.classes.get(c, 0) == 0]

    wall = time.time() - t0
    cov = {
        "evaluations": total.evaluations,
        "distinct_nontrivial": len(total.keys),
        "rule": mod.RULE,
        "samples": jsonable((total.nt_samples + total.samples)[:10]),
        "classes": dict(sorted(total.classes.items())),
        "skipped_outside_domain": dict(total.skips),
        "excluded_known": {k: v for k, v in total.excluded.items() if not k.startswith("(repeat)")},
        "stages": per_stage,
        "regressions_replayed": reg_count,
        "exhaustive": bool(exhaustive_all and stage_list),
        "budget_hit": total.budget_hit,
        "workers": NWORKERS,
    }
    if extra:
        cov["extra"] = jsonable(extra)
    if total.notes:
        cov["notes"] = total.notes[:20]
    ev = {
        "property_id": prop, "tier": tier, "seed": seed,
        "level": getattr(mod, "LEVEL", "exploration"),
        "coverage": cov,
        "assumptions": list(getattr(mod, "ASSUMPTIONS", [])),
        "wall_s": round(wall, 2),
        "violations": len(violations),
    }
    # evidence/ and replays/ describe runs against /repo; runs against a scratch tree (VERIF_REPO=..., used for
    # seeded-change and mutant experiments) write their evidence elsewhere so they never overwrite it
    evdir = os.path.join(VERIF, "evidence") if os.path.realpath(REPO) == "/repo" else os.environ.get(
        "VERIF_ALT_EVIDENCE", "/tmp/verif_alt_evidence")
    os.makedirs(evdir, exist_ok=True)
    with open(os.path.join(evdir, prop + ".json"), "w") as f:
        json.dump(ev, f, ensure_ascii=False, indent=1, default=repr)
        f.write("\n")

    print("%s tier=%s seed=%d evaluations=%d distinct_nontrivial=%d excluded_known=%d wall=%.1fs"
          % (prop, tier, seed, total.evaluations, len(total.keys),
             sum(v for k, v in total.excluded.items() if not k.startswith("(repeat)")), wall))
    for e in known.entries:
        if e["status"] == "known":
            print("KNOWN-FINDING: property=%s %s [bucket=%s; seen %d time(s) this run]"
                  % (prop, e["what"], e["bucket"], total.excluded.get(e["bucket"], 0)))
    if violations:
        for b, path, detail in violations:
            print("VIOLATION property=%s replay=%s" % (prop, path))
            print("  bucket=%s detail=%s" % (b, str(detail)[:400]))
        return 1
    if missing and not only:
        print("HARNESS-ERROR: essential case classes empty: %s" % missing)
        return 2
    return 0


def _confirm(mod_name, stage_name, case, tier, seed):
    try:
        import importlib
        mod = importlib.import_module(mod_name)
        ctx = Ctx(mod.ID, tier, seed)
        if hasattr(mod, "worker_init"):
            mod.worker_init(ctx)
        check = mod.check_case
        for s in mod.stages(ctx):
            if s.name == stage_name and s.check:
                check = s.check
        r = _call_check(check, case)
        return "ok" if r["ok"] else "fail"
    except BaseException:
        return ("ERROR", traceback.format_exc())


def _run_regressions(mod_name, tier, seed, regdir, files, known):
    try:
        import importlib
        mod = importlib.import_module(mod_name)
        ctx = Ctx(mod.ID, tier, seed)
        if hasattr(mod, "worker_init"):
            mod.worker_init(ctx)
        stage_checks = {s.name: s.check for s in mod.stages(ctx) if s.check}
        st = Stats()
        skip = set(known)
        for fn in files:
            with open(os.path.join(regdir, fn)) as f:
                doc = json.load(f)
            check = stage_checks.get(doc.get("stage")) or mod.check_case
            case = doc["case"]
            r = _call_check(check, case)
            st.record(case, r, want_samples=False)
            if not r["ok"]:
                if r["bucket"] in skip:
                    st.excluded[r["bucket"]] += 1
                else:
                    st.failures.setdefault(r["bucket"], (case, "regression %s: %s" % (fn, r.get("detail", ""))))
        return st
    except BaseException:
        return ("ERROR", traceback.format_exc())


def main(argv=None):
    import argparse
    import importlib

    ap = argparse.ArgumentParser()
    ap.add_argument("prop")
    ap.add_argument("--tier", default=os.environ.get("VERIF_TIER") or "quick",
                    choices=["quick", "thorough"])
    ap.add_argument("--replay")
    a = ap.parse_args(argv)
    try:
        seed = int(os.environ.get("VERIF_SEED") or "1")
    except ValueError:
        seed = 1
    prop = a.prop.upper()
    try:
        mod = importlib.import_module("checks." + prop.lower())
        rc = run_check(mod, a.tier, seed, replay=a.replay)
    except HarnessError as e:
        print("HARNESS-ERROR: %s" % e)
        rc = 2
    except Exception:
        traceback.print_exc()
        print("HARNESS-ERROR: unexpected exception in harness")
        rc = 2
    sys.stdout.flush()
    return rc


if __name__ == "__main__":
    sys.exit(main())
