"""Timezone helpers for oracles.  Expected offsets are read from the *source* table
(dateparser.timezones.timezone_info_list), never from the loaded regex table."""
import datetime as dt
import re

import pytz


def source_tables():
    from dateparser.timezones import timezone_info_list
    offsets = {}  # 'UTC-12:00' -> seconds
    for name, secs in timezone_info_list[0]["timezones"]:
        offsets[name.replace("\\", "")] = secs
    abbrs = {}
    conflicts = set()
    for name, secs in timezone_info_list[1]["timezones"]:
        if name in abbrs and abbrs[name] != secs:
            conflicts.add(name)
        abbrs.setdefault(name, secs)
    return offsets, abbrs, conflicts


_OFF = re.compile(r"^(?:UTC|GMT)?([+-])(\d{1,2})(?::?(\d{2}))?$", re.I)


def oracle_tz(name):
    """tzinfo the documentation promises for a TIMEZONE/TO_TIMEZONE string: an IANA name known to
    pytz, else a fixed offset / abbreviation from the library's table."""
    try:
        return pytz.timezone(name)
    except pytz.UnknownTimeZoneError:
        pass
    m = _OFF.match(name)
    if m:
        sign = -1 if m.group(1) == "-" else 1
        secs = sign * (int(m.group(2)) * 3600 + int(m.group(3) or 0) * 60)
        return dt.timezone(dt.timedelta(seconds=secs))
    _, abbrs, _ = source_tables()
    for k, v in abbrs.items():
        if k.lower() == name.lower():
            return dt.timezone(dt.timedelta(seconds=v))
    raise KeyError(name)


def localize(tz, naive):
    """naive wall clock in tz -> aware; raises for ambiguous / non-existent pytz times."""
    if hasattr(tz, "localize"):
        return tz.localize(naive, is_dst=None)
    return naive.replace(tzinfo=tz)


def is_unambiguous(tz, naive):
    if not hasattr(tz, "localize"):
        return True
    try:
        tz.localize(naive, is_dst=None)
        return True
    except (pytz.AmbiguousTimeError, pytz.NonExistentTimeError):
        return False


TZ_POOL_SMALL = ["UTC", "America/New_York", "Europe/Paris", "Asia/Kolkata", "Australia/Lord_Howe",
                 "Pacific/Apia", "Asia/Kathmandu", "America/St_Johns", "Pacific/Kiritimati",
                 "EDT", "PST", "IST", "AEST", "CEST", "+05:30", "-0800", "UTC+3", "GMT-2", "UTC+14:00",
                 "UTC-12:00", "+0000", "Z"]


def dual_names():
    """Abbreviations that both pytz and the library table resolve (EST, CET, ...).  TIMEZONE asks pytz
    first and TO_TIMEZONE asks the table first, and since tzdata 2024b several of these pytz names are
    links to regions with LMT history, so 'the configured zone' is not one thing for them: the pools
    leave them out."""
    import pytz
    _, abbrs, _ = source_tables()
    out = set()
    for k in abbrs:
        for cand in (k, k.upper(), k.lower()):
            try:
                pytz.timezone(cand)
                out.add(k)
            except Exception:
                pass
    return out
