"""Frozen clock: replaces the module-level `datetime` name in the dateparser modules that read
the clock with a class whose now/today/utcnow return a chosen instant (naive UTC).  Instances
constructed through it are plain `datetime.datetime` objects and isinstance checks against it
accept plain datetimes, so nothing else changes.  (Same device as the repo's own tests, done in
the harness, not in the repo.)"""
import datetime as _dt
import importlib

real_datetime = _dt.datetime
_state = {"utc": None}
MODULES = ["dateparser.date", "dateparser.parser", "dateparser.freshness_date_parser",
           "dateparser.utils"]


class _Meta(type):
    def __instancecheck__(cls, obj):
        return isinstance(obj, real_datetime)

    def __subclasscheck__(cls, sub):
        return issubclass(sub, real_datetime)


class FrozenDT(real_datetime, metaclass=_Meta):
    def __new__(cls, *a, **k):
        return real_datetime(*a, **k)

    @classmethod
    def _utc(cls):
        if _state["utc"] is None:
            return real_datetime.now(_dt.timezone.utc).replace(tzinfo=None)
        return _state["utc"]

    @classmethod
    def now(cls, tz=None):
        u = cls._utc()
        if tz is None:
            # process-local time: checks run with TZ=UTC unless they say otherwise
            import time as _t
            if _t.tzname[0] in ("UTC", "GMT") and _t.timezone == 0:
                return u
            return u.replace(tzinfo=_dt.timezone.utc).astimezone().replace(tzinfo=None)
        return u.replace(tzinfo=_dt.timezone.utc).astimezone(tz)

    @classmethod
    def today(cls):
        return cls.now()

    @classmethod
    def utcnow(cls):
        return cls._utc()


_installed = False


def install():
    global _installed
    if _installed:
        return
    for m in MODULES:
        mod = importlib.import_module(m)
        if getattr(mod, "datetime", None) is real_datetime:
            mod.datetime = FrozenDT
    _installed = True


def freeze(utc_naive):
    """Set the frozen instant (naive UTC datetime) or None to release."""
    install()
    _state["utc"] = utc_naive
