"""Thorough-tier coverage-guided stage shared by C02 and C17: 16 atheris/libFuzzer processes drive the check's own
structured strategy through hypothesis.fuzz_one_input.  Campaigns are only approximately reproducible (libFuzzer); the
saved failing case is the reproducible unit and goes through the same replay/confirmation path as any other failure."""
import json
import os
import re
import shutil
import subprocess
import sys
import tempfile

from vlib.runner import NWORKERS, REPO, VERIF, derive_seed


def run(ctx, known, total, prop, runs_per_proc, stage_name=None):
    if runs_per_proc <= 0:
        return None
    try:
        import atheris  # noqa: F401
    except ImportError:
        return {"atheris": "not installed: coverage-guided stage skipped"}
    out = tempfile.mkdtemp(prefix="ath_%s_" % prop)
    info = {"processes": NWORKERS, "runs_per_process": runs_per_proc, "executions": 0, "edges_covered_max": 0, "failures": 0}
    try:
        procs = []
        env = dict(os.environ)
        env["PYTHONPATH"] = "%s:%s:%s" % (REPO, VERIF, os.path.join(VERIF, ".deps"))
        for i in range(NWORKERS):
            corpus = os.path.join(out, "corpus%d" % i)
            os.makedirs(corpus)
            cmd = [sys.executable, "-m", "checks.atheris_target", prop, out, corpus, "-runs=%d" % runs_per_proc,
                   "-seed=%d" % (derive_seed(ctx.seed, "atheris", i) % (2 ** 31 - 1) + 1), "-max_len=4096", "-len_control=0", "-print_final_stats=1"]
            # stderr goes to a file: a pipe that is read one process after the other blocks the others once it is full
            errf = open(os.path.join(out, "stderr%d.log" % i), "wb")
            procs.append((subprocess.Popen(cmd, cwd=VERIF, env=env, stdout=subprocess.DEVNULL, stderr=errf), errf))
        for i, (p, errf) in enumerate(procs):
            p.wait(timeout=6 * 3600)
            errf.close()
            with open(os.path.join(out, "stderr%d.log" % i), "rb") as f:
                f.seek(max(0, os.path.getsize(f.name) - 65536))
                err = f.read()
            m = re.findall(r"cov: (\d+)", err.decode("utf-8", "replace"))
            if m:
                info["edges_covered_max"] = max(info["edges_covered_max"], int(m[-1]))
        for fn in os.listdir(out):
            path = os.path.join(out, fn)
            if fn.startswith("stats-"):
                st = json.load(open(path))
                info["executions"] += st["executions"]
                total.evaluations += st["executions"]
            elif fn.startswith("failure-"):
                doc = json.load(open(path))
                info["failures"] += 1
                b = doc["bucket"]
                if known.is_known(b):
                    total.excluded[b] += 1
                else:
                    total.failures.setdefault(b, (doc["case"], "[coverage-guided stage] " + str(doc.get("detail"))))
    finally:
        shutil.rmtree(out, ignore_errors=True)
    return info
