"""Language tables read from the tree under test, with the harness' own overlay of
locale_specific data (plain merge: lists concatenate, dicts merge, scalars replace) so that the
oracle does not share code with dateparser.languages.locale.Locale."""
import importlib
import unicodedata

MONTHS = ["january", "february", "march", "april", "may", "june", "july", "august", "september",
          "october", "november", "december"]
WEEKDAYS = ["monday", "tuesday", "wednesday", "thursday", "friday", "saturday", "sunday"]
UNITS = ["decade", "year", "month", "week", "day", "hour", "minute", "second"]
OTHER = ["ago", "in", "am", "pm"]
FIXED_TOKENS = {"am": "am", "pm": "pm", "utc": "UTC", "gmt": "GMT", "z": "Z",
                "+": "+", ":": ":", ".": ".", " ": " ", "-": "-", "/": "/"}


def language_order():
    from dateparser.data import languages_info
    return list(languages_info.language_order)


def language_locale_dict():
    from dateparser.data import languages_info
    return dict(languages_info.language_locale_dict)


def raw_info(lang):
    return importlib.import_module("dateparser.data.date_translation_data." + lang).info


def _merge(a, b):
    out = {}
    for k, v in a.items():
        if k in b:
            if isinstance(v, list):
                out[k] = list(v) + list(b[k])
            elif isinstance(v, dict):
                out[k] = _merge(v, b[k])
            else:
                out[k] = b[k]
        else:
            out[k] = v
    for k, v in b.items():
        if k not in a:
            out[k] = v
    return out


_cache = {}


def info(locale):
    """Overlaid vocabulary for a language code or a regional locale code."""
    if locale in _cache:
        return _cache[locale]
    lang = locale
    if locale not in language_order():
        lang = locale.rsplit("-", 1)[0]
    base = raw_info(lang)
    spec = base.get("locale_specific", {}).get(locale, {}) if locale != lang else {}
    merged = _merge({k: v for k, v in base.items() if k != "locale_specific"}, spec)
    _cache[locale] = merged
    return merged


def all_locales():
    """[(locale, language)] for the 205 languages and their regional locales."""
    out = []
    lld = language_locale_dict()
    for lang in language_order():
        out.append((lang, lang))
        for loc in lld.get(lang, []):
            out.append((loc, lang))
    return out


def nfkd(s):
    return "".join(c for c in unicodedata.normalize("NFKD", s) if unicodedata.category(c) != "Mn")


def vocabulary(inf, normalize):
    """word (lower-cased, optionally NFKD-stripped) -> set of vocabulary keys that list it."""
    voc = {}

    def add(word, key):
        w = word.lower()
        if normalize:
            w = nfkd(w)
        voc.setdefault(w, set()).add(key)

    for k in MONTHS + WEEKDAYS + UNITS + OTHER:
        for w in inf.get(k, []):
            add(w, k)
    for w in inf.get("skip", []):
        add(w, "<skip>")
    for w in inf.get("pertain", []):
        add(w, "<pertain>")
    for k, ws in inf.get("relative-type", {}).items():
        for w in ws:
            add(w, "rel:" + k)
    for w, k in FIXED_TOKENS.items():
        add(w, "fixed:" + k)
    return voc


def relative_patterns(inf):
    """[(key, pattern)] of relative-type-regex."""
    out = []
    for k, pats in inf.get("relative-type-regex", {}).items():
        for p in pats:
            out.append((k, p))
    return out
