#!/venv/bin/python
"""Regenerates MANIFEST.json from the table below and validates it against the schema."""
import json, os, sys
HERE = os.path.dirname(os.path.dirname(os.path.abspath(__file__)))
CHECKS = {
    # id: (category, technique, level text, level note, design ref)
    "C01": ("exploration", "property-based testing (Hypothesis): render/parse round-trip vs. the rendered datetime; thorough tier walks every calendar day 0001-9999",
            "Generated round-trip search: boundary-biased datetimes x 17 harness-written renderings x language/PREFER_* choices, and epoch timestamps x suffix x sign x zones against an independent pytz computation. Thorough enumerates all 3.65 M calendar days once. Search, not proof: absence of a counterexample in the explored set.",
            "Trusts pytz for zone arithmetic and Python's datetime; process TZ=UTC.", "DESIGN.md §4 C01"),
    "C02": ("exploration", "structured fuzzing with Hypothesis (string mutation, token/digit/residue soups, arbitrary Unicode x generated settings/language/format arguments), exception-bucketing by (type, innermost library frame), fresh-process re-confirmation; thorough adds a coverage-guided atheris/libFuzzer campaign over the same strategy and oracle",
            "Totality and the error contract over generated (string, settings, languages/locales/region, date_formats) tuples with boundary-biased reference times (datetime.min/max, aware bases); invalid-settings sub-generator requires the documented exception from every entry point whatever the string is (blank, timestamp, format-matching strings included); parse, get_date_data and get_date_tuple must agree in shape.",
            "Only resolvable timezone names; 10-entry settings pool under autodetection (cost); TZ=UTC.", "DESIGN.md §4 C02"),
    "C03": ("exploration", "stateful property-based testing (Hypothesis-generated call histories, whole history shrinks) against a fresh-process oracle (forked pristine child per call, validated with real interpreters under several PYTHONHASHSEED values)",
            "Histories of parse / DateDataParser creation and reuse / search_dates / calendar / failing calls over settings variants (directed triples, free histories, regional-locale families from a cold process, parse-then-first-detecting-search from a cold process, and the repeat-around-interference shape over the 3,140 corpus strings), executed in a forked child; every step's outcome must equal the same call alone in a fresh fork, passed-in containers must stay unmodified and default-settings probes must keep their fresh values. Directed 'setup, interference, probe' triples (equal / one-key-different / one-value-different / explicit-default / order-only-different settings, repeated searches, several live parsers, a NORMALIZE x SKIP_TOKENS matrix on one locale, zone and autodetect sequences) and free histories, from cold and warmed start states.",
            "A fork of a process that only imported dateparser stands for a fresh process (validated against new interpreters).", "DESIGN.md §4 C03"),
    "C17": ("exploration", "property-based testing / structured fuzzing (Hypothesis) of search_dates with a well-formedness oracle; walk over all 205 languages; thorough adds a coverage-guided atheris/libFuzzer campaign",
            "Texts built from corpus dates of the requested language, filler and mutated punctuation, for every language explicitly, multi-language and autodetect: no exception, None or non-empty list, tuple arity, non-blank in-text substrings in text order, datetime values, language element among the requested.",
            "Valid language codes only; frozen clock.", "DESIGN.md §4 C17"),
    "C20": ("exploration", "harness-owned thread schedules (sys.settrace preemption of A at its k-th library line, B to completion) enumerated over distinct lines and drawn by Hypothesis; oracle = results of the same calls alone",
            "32 call pairs (incl. error-path calls, same-locale multi-token pairs, small-CACHE_SIZE_LIMIT pairs, plain default-parser pairs and a calendar/parse pair) x 2 directions x {warm, cold start} x preemption at the first occurrence of every distinct (file, line, calling context) the preempted call executes + random k; every schedule in a forked child from a per-pair zygote; lock-holding callback points are detected and counted as infeasible. Six recorded findings (three root causes: shared Settings, shared Locale dictionary, search RELATIVE_BASE; no locking), each keyed by pair, direction, side and wrong outcome.",
            "One preemption, run-to-completion schedules only (the property's own quantifier); real threads, deterministic given k.", "DESIGN.md §4 C20"),
    "C04": ("exploration", "property-based testing (Hypothesis) against an independent calendar-arithmetic oracle; thorough adds an exhaustive units x n x direction x base grid",
            "Generated phrases (1-3 units, counts 0..5000, decimals, fixed words, clock times, RETURN_TIME_AS_PERIOD) over boundary-biased bases given as RELATIVE_BASE or frozen clock, compared with integer month arithmetic + exact timedelta written in the harness (no relativedelta); implicit-now stage against pytz for TIMEZONE/TO_TIMEZONE pairs.",
            "Both application orders accepted when month clamping makes them differ; comma decimals only in single-unit phrases; TZ=UTC.", "DESIGN.md §4 C04"),
    "C06": ("exploration", "exhaustive table walk + Hypothesis sampling, differential against the English canonical expression",
            "Every fixed relative phrase and every counted pattern (instantiated with the listed counts and decimals) of all 504 locale codes, NORMALIZE on/off, is parsed with its language selected and compared (date and period) with the English parse of the canonical key under the same frozen reference time. 30 (language, key, phrase) failures of the pinned tree are listed findings.",
            "The key in the data is the canon; English path correctness is C04's subject.", "DESIGN.md §4 C06"),
    "C07": ("exploration", "property-based testing (Hypothesis) + walk over all locales: constructed reading of rendered numeric dates",
            "Dates rendered in all 6 orders x 4 separators x year classes x optional time, parsed with explicit DATE_ORDER (must be read as written) and with each locale's own order (harness-side overlay as oracle), PREFER_LOCALE_DATE_ORDER on/off; thorough adds an exhaustive 6x4x40 years x all (m,d) grid.",
            "Locale order = 'date_order' of the data module after overlay; one known finding (-YYYY read as UTC offset).", "DESIGN.md §4 C07"),
    "C08": ("exploration", "property-based testing (Hypothesis) against an independent completion rule; thorough adds the exhaustive 9999x12 last-day grid",
            "Month-year / year-only / full-date strings (absolute parser, all 9 preference pairs, optional clock time) and custom-format forms under a frozen clock; expected value from calendar.monthrange and the reference date; period by finest part present.",
            "Frozen clock via module-level datetime replacement; TZ=UTC.", "DESIGN.md §4 C08"),
    "C09": ("exploration", "property-based testing (Hypothesis): exact nearest-occurrence oracle for weekday/time-only, validity predicates for month/day-month/two-digit-year; thorough adds every day 1970-2067 x 7 weekdays x 3 preferences and all 1440 HH:MM",
            "Reference datetimes over 1970-2067 with boundaries over-weighted x 3 preferences x 5 forms (+TIMEZONE for time-only). Three recorded findings (month re-imposed after a cross-month shift for weekday-only and time-only; UTC date used with a TIMEZONE).",
            "Defaults for PREFER_DAY_OF_MONTH/MONTH_OF_YEAR; TZ=UTC.", "DESIGN.md §4 C09"),
    "C11": ("exploration", "exhaustive walk of the source timezone table + Hypothesis sampling of bodies; offset/wall-clock/pickle-copy round-trip oracle",
            "All supported offsets x 8-12 spellings and all ~390 abbreviations (upper/lower) x bodies x positions x {en, autodetect}: aware result with exactly the listed offset and the written wall clock, surviving pickle/copy/deepcopy; naive control group. 4 non-ASCII abbreviations are listed findings.",
            "Expected offsets read from dateparser/timezones.py source table; conflicting names (LMT) excluded.", "DESIGN.md §4 C11"),
    "C05": ("exploration", "exhaustive table walk + property-based sampling (Hypothesis): every listed month/weekday name parsed and compared with the meaning the data declares",
            "Complete walk over all 504 locale codes x NORMALIZE on/off x SKIP_TOKENS default/[] x every single-meaning month/weekday spelling (exhaustive in the thorough tier, all languages + 20% of regional locales in quick), plus Hypothesis sampling of days/years/reference dates. 51 (language, name) pairs that fail on the pinned tree (shadowed or normalisation-colliding names) are listed as known findings; any other failing name is a violation.",
            "The data module's key is the name's meaning; harness-side overlay of locale_specific; frozen clock via module-level datetime replacement.", "DESIGN.md §4 C05"),
    "C10": ("exploration", "metamorphic property-based testing (Hypothesis): strict vs loose parse and two distant frozen reference times; enumerated walk of the whole corpus (quick: two seeded modes per string, thorough: all modes)",
            "For corpus strings, generated partial dates in every language, custom-format strings and timestamps: strict(s) is None or equals loose(s); strict results (and required parts) are equal at two reference times >=10 years apart; generated strings that lack a demanded part never yield a result.",
            "One language per case; relative-time parser off; frozen clock.", "DESIGN.md §4 C10"),
    "C12": ("exploration", "differential property-based testing (Hypothesis) against pytz; enumerated same-name and own-abbreviation pair stages; child interpreters for the process-local zone; thorough adds an exhaustive 60x60 zone-pair grid",
            "Ordered zone pairs x unambiguous local datetimes (DST-adjacent over-weighted) x 4 parser kinds x 3 awareness settings x optional own zone, compared with A.localize(d).astimezone(B); TIMEZONE='local' cases are run in subprocesses under 5 TZ values.",
            "pytz is the reference; dual pytz/table names excluded; zero-delta relative phrases.", "DESIGN.md §4 C12"),
    "C13": ("exploration", "compositional/metamorphic property-based testing (Hypothesis): multi-language result vs first successful single-language result; autodetect re-parse; locale vs language+region; convenience function vs class for every argument combination; enumerated corpus walk",
            "Four experiments over the corpus: multi == first non-None single in priority/given order with locale membership and DEFAULT_LANGUAGES neutrality; autodetect reproducibility; locales=[loc] == languages+region with loc's own date order; languages + partly invalid region against per-language locales with loader caches reset.",
            "Frozen clock, default settings; fallback to the plain language when lang-REGION is not listed.", "DESIGN.md §4 C13"),
    "C14": ("exploration", "round-trip property-based testing (Hypothesis) over generated strptime formats + exhaustive walk of localised month/weekday names",
            "Formats built from distinct directives (plus ~40 hand-listed shapes) x datetimes 1900-2100 rendered by harness code and parsed back with date_formats=[fmt] under a frozen clock and preference pairs; every single-meaning month/weekday name of every language in 3+2 formats; raw-match precedence cases. 52 localised-name findings share root causes with C05.",
            "Frozen system clock for the missing year/current day; year-less %j and day-without-month formats are not generated (ambiguous).", "DESIGN.md §4 C14"),
    "C15": ("exploration", "exhaustive calendar walk (thorough) / month boundaries + Hypothesis sampling (quick), differential against the conversion libraries, an independent arithmetic Jalali algorithm and day-consecutiveness",
            "Jalali 1200-1500 and Hijri 1343-1500 dates in numeric, named-month, Persian-digit, weekday, spelled-day and time spellings parsed by JalaliCalendar/HijriCalendar and compared with convertdate/hijridate called directly; arithmetic Jalali oracle admitted per year by a self-check; next-day consecutiveness at month ends; the first/last two years of each range are walked in every numeric spelling (incl. day-first); every spelled-out day word x every listed month spelling is enumerated.",
            "convertdate/hijridate are the reference conversions; valid unambiguous dates only.", "DESIGN.md §4 C15"),
    "C18": ("exploration", "metamorphic property-based testing (Hypothesis): whitespace rewritings and all Unicode Nd digit blocks vs the base parse; enumerated corpus walk (quick: all whitespace rewritings + two digit blocks per string, thorough: all blocks)",
            "Corpus strings and generated dates in every language: 9 whitespace rewritings and every decimal-digit script (enumerated from unicodedata) must give the same (date, period) as the base string, with a fixed language or autodetection.",
            "Frozen clock; same parser instance for base and rewritten string.", "DESIGN.md §4 C18"),
    "C16": ("exploration", "exhaustive regenerate-and-compare of all generated artefacts + differential property-based test (Hypothesis) of the loaded vs rebuilt timezone table",
            "All 205 modules are regenerated with the repository's own generator and compared byte for byte; all 773 timezone entries and both search regexes are rebuilt and compared with the pickle and the imported table; every index entry is checked (exhaustive: true). A generated differential drives pop_tz_offset_from_string with both tables.",
            "Vendored pure-Python PyYAML with a YAML-1.2 resolver shim stands in for ruamel.yaml (validated by byte-for-byte reproduction).", "DESIGN.md §4 C16"),
    "C19": ("fault_enumeration", "fault injection over every truncation point of the cache file (enumerated; Hypothesis for junk contents) with table-equality oracle, validated by real interpreter imports",
            "Every prefix length of the cache (thorough: all 134 537; quick: boundaries + opcode boundaries + every byte inside every FRAME header and inside first/last/seeded instances of every opcode kind + seeded sample), missing file, wrong-shape pickles, generated junk and crashes inside the library's own cache write (a forked child dies after a byte budget or at the final rename) are injected into a copy; load must succeed, yield the source-defined table, leave a complete cache on disk and take the fast path next time. A subset is re-run as real `import dateparser` subprocesses.",
            "Interrupted/concurrent writes leave a prefix of the file; directory writable.", "DESIGN.md §4 C19"),
}
NOT_APPLICABLE = []

def main():
    props = [json.loads(l)["id"] for l in open(os.path.join(HERE, "properties.jsonl"))]
    checks = []
    for pid in props:
        if pid not in CHECKS:
            continue
        cat, tech, text, note, ref = CHECKS[pid]
        checks.append({
            "property_id": pid,
            "quick_cmd": "./check %s --tier quick" % pid,
            "thorough_cmd": "./check %s --tier thorough" % pid,
            "evidence_file": "evidence/%s.json" % pid,
            "replay_cmd_template": "./check %s --replay {path}" % pid,
            "engine": "vlib",
            "level_claimed": {"category": cat, "text": text, "design_ref": ref},
            "level_note": note,
            "technique": tech,
        })
    claimed = {c["property_id"] for c in checks}
    na = [x for x in NOT_APPLICABLE if x["property_id"] not in claimed]
    for pid in props:
        if pid not in claimed and pid not in {x["property_id"] for x in na}:
            na.append({"property_id": pid, "reason": "check not built yet in this round (planned: property-based check per DESIGN.md §4 %s)" % pid})
    hooks_commits = []
    hc = os.path.join(HERE, "hooks_commits.txt")
    if os.path.exists(hc):
        hooks_commits = [l.split()[0] for l in open(hc) if l.strip() and not l.startswith("#")]
    m = {
        "version": 1,
        "setup_cmd": "./setup.sh",
        "hooks": {
            "guard": "DATEPARSER_VERIF",
            "enable": "none needed: no instrumentation was added to the repository (all observation is done from the harness: frozen clock by replacing module-level names, sys.settrace for schedules, scratch copies for fault injection); ./check exports DATEPARSER_VERIF=1 for uniformity",
            "baseline_off_cmd": "cd /repo && /venv/bin/python -m pytest -ra -q -p no:cacheprovider --timeout=900 --continue-on-collection-errors",
            "source_commits": hooks_commits,
            "add_only": True,
        },
        "engines": [{"name": "vlib", "path": "vlib/runner.py",
                     "serves_properties": sorted(claimed),
                     "kind_free_text": "Hypothesis-driven and enumerated stages over 16 forked workers; collect-then-shrink with root-cause buckets; known-findings exclusion; JSON replay"}],
        "checks": checks,
        "not_applicable": na,
        "notes": "All checks: ./check <id> [--tier quick|thorough] [--replay file]. PYTHONPATH puts /repo first so the current working tree is what is imported. known_findings.json lists recorded findings and fixed defects.",
    }
    with open(os.path.join(HERE, "MANIFEST.json"), "w") as f:
        json.dump(m, f, indent=1)
        f.write("\n")
    try:
        import jsonschema
        jsonschema.validate(m, json.load(open("/root/.vp/MANIFEST.schema.json")))
        print("MANIFEST.json valid:", len(checks), "checks,", len(na), "not_applicable")
    except ImportError:
        print("jsonschema not available; written without validation")

if __name__ == "__main__":
    main()
