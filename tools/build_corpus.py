#!/venv/bin/python
"""One-off: extract string literals from the repository's tests (AST walk) into corpus/*.json.
strings.json: [{s, locale}] date strings that parse under autodetection with a fixed reference time
texts.json:   longer search texts from tests/test_search.py"""
import ast, glob, json, os, sys, datetime as dt
from multiprocessing import Pool
sys.path.insert(0, "/repo")
HERE = os.path.dirname(os.path.dirname(os.path.abspath(__file__)))

def literals(path):
    out = []
    tree = ast.parse(open(path, encoding="utf-8").read())
    for node in ast.walk(tree):
        if isinstance(node, ast.Constant) and isinstance(node.value, str):
            out.append(node.value)
    return out

def probe(s):
    from dateparser.date import DateDataParser
    global P
    try:
        P
    except NameError:
        P = DateDataParser(settings={"RELATIVE_BASE": dt.datetime(2015, 6, 15, 10, 30)})
    try:
        dd = P.get_date_data(s)
    except Exception as e:
        return s, None
    return s, dd.locale if dd.date_obj else None

if __name__ == "__main__":
    allstr, texts = set(), set()
    for p in sorted(glob.glob("/repo/tests/test_*.py")):
        for s in literals(p):
            if 3 <= len(s) <= 100 and "\n" not in s.strip():
                allstr.add(s)
            if "test_search" in p and 15 <= len(s) <= 400:
                texts.add(s)
    allstr = sorted(allstr)
    print(len(allstr), "candidate literals;", len(texts), "texts")
    with Pool(16) as pool:
        res = pool.map(probe, allstr, chunksize=50)
    good = [{"s": s, "locale": loc} for s, loc in res if loc]
    json.dump(good, open(os.path.join(HERE, "corpus/strings.json"), "w"), ensure_ascii=False, indent=0)
    json.dump(sorted(texts), open(os.path.join(HERE, "corpus/texts.json"), "w"), ensure_ascii=False, indent=0)
    import collections
    c = collections.Counter(g["locale"] for g in good)
    print(len(good), "parsable strings in", len(c), "locales", c.most_common(8))
