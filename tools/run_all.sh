#!/bin/sh
# Runs every registered quick check against /repo (refreshing evidence/), then validates the evidence files.
cd /verif || exit 2
fail=0
for c in C01 C02 C03 C04 C05 C06 C07 C08 C09 C10 C11 C12 C13 C14 C15 C16 C17 C18 C19 C20; do
  ./check "$c" --tier "${1:-quick}" > /tmp/run_all_$c.log 2>&1; rc=$?
  head -1 /tmp/run_all_$c.log | cut -c1-160
  [ $rc -ne 0 ] && { fail=1; echo "  rc=$rc"; grep -A1 "VIOLATION\|HARNESS" /tmp/run_all_$c.log | cut -c1-400 | head -6; }
done
python3-vt tools/validate_evidence.py | grep -v "^ok" 
echo "overall fail=$fail"
