#!/usr/bin/env python3
"""tools/seed_prompt.py Cxx <suffix>  — prints the brief given to a fresh sub-agent for one seeded change.
The brief contains only the property (as listed in properties.jsonl), the agent's scratch worktree and output directory, and
one-line summaries of the earlier seeded changes for that property (so that the new one uses another mechanism).
Nothing from the checks."""
import json, sys, os, glob
pid, sfx = sys.argv[1], sys.argv[2]
here = os.path.dirname(os.path.dirname(os.path.abspath(__file__)))
prop = [json.loads(l) for l in open(os.path.join(here, 'properties.jsonl')) if json.loads(l)['id'] == pid][0]
earlier = []
for d in sorted(glob.glob(os.path.join(here, 'seeded', pid + '*'))):
    try:
        m = json.load(open(os.path.join(d, 'meta.json')))
        earlier.append('- ' + (m.get('summary') or '')[:400].replace('\n', ' '))
    except Exception:
        pass
wt, sd = '/tmp/wt_%s' % pid, '/tmp/seed_%s%s' % (pid, sfx)
print(f"""You are helping to evaluate a verification harness for the Python library scrapinghub/dateparser. Your job: write ONE realistic
change to the library that BREAKS the semantic property below while the code still imports and the repository's existing test suite
still passes, plus a small demonstration program.

Your scratch git worktree of the library (work ONLY there; never touch /repo or /verif, never read /verif): {wt}
Output directory (create it): {sd}

THE PROPERTY (id {pid}): {prop['title']}
Statement: {prop['statement']}
Quantifier: {prop['quantifier']['text']}
Why the unit tests cannot settle it: {prop['why_tests_cant']}
Code anchors: {json.dumps(prop['anchors'], ensure_ascii=False)}

WHAT KIND OF CHANGE: it should look like a plausible refactoring, optimisation, clean-up or "bug fix" a contributor could submit (not
sabotage such as `if x == magic`), and it should need something SPECIFIC to manifest: an unusual input or value range, a multi-step
sequence of calls, a particular setting combination, two cooperating sites that each look fine alone, a particular interleaving or a
fault at a particular point — NOT something ordinary use would expose at once. Aim for a violation that fewer than about 1 in 1000
naively random inputs of the property's domain would expose, but which is a clear, unarguable violation of the property as stated
when it does show (not a matter of interpretation, and not merely behaviour outside the property's quantifier).

Earlier changes already written for this property — use a DIFFERENT mechanism and a different region of the code/input space:
{chr(10).join(earlier) if earlier else '- (none)'}

REQUIREMENTS
1. The full existing suite must still pass with your change, unedited. Run it in the worktree:
   cd {wt} && PYTHONPATH={wt} /venv/bin/python -m pytest -q -p no:cacheprovider --timeout=900 --continue-on-collection-errors 2>&1 | grep -E "^(FAILED|ERROR)|passed|failed" | sort
   On the UNCHANGED tree the summary is `5 failed, 23933 passed, 16 skipped, 1 error` and the FAILED/ERROR lines are exactly those
   in /tmp/baseline_suite.txt (optional packages / doctests that need the wall clock). With your change the set of FAILED/ERROR
   lines must be the same (drop -x, which would stop at the first pre-existing failure; use `-q ... | grep -E "^(FAILED|ERROR)|passed|failed"`).
   Do not edit or add tests in the worktree.
2. Write {sd}/demo.py: a standalone program that exits 0 when the property holds and exits 1 (printing what went wrong) when it is
   violated. It must exit 0 on the unchanged tree and 1 with your change; run as
   `cd /tmp && PYTHONPATH={wt} TZ=UTC /venv/bin/python {sd}/demo.py`. (Check the unchanged behaviour with
   `git -C {wt} diff > {sd}/p.diff; git -C {wt} apply -R {sd}/p.diff; <run demo>; git -C {wt} apply {sd}/p.diff` — NEVER use `git stash`:
   the stash stack is shared by all worktrees of the repository and other agents are working in sibling worktrees right now.)  The demo must judge by the property's own terms (an independent expected value, a relation between
   runs, ...), not by comparing against hard-coded output of the old code that the property does not imply.
3. Write {sd}/patch.diff with `git -C {wt} diff > {sd}/patch.diff` and LEAVE THE CHANGE APPLIED (uncommitted) in the worktree.
4. Write {sd}/meta.json: {{"property": "{pid}", "summary": "<what the change does, 1-3 sentences>", "needs": "<what exactly is needed
   for the violation to manifest>", "files": [...], "commands_run": [...]}}.
5. Use /venv/bin/python (it has the library's dependencies). There is no network. Do not install anything. Keep any other scratch
   files under {sd}. Do not commit in the worktree.

When done, reply with: the one-paragraph summary, what it needs to manifest, and the exact test-suite tail line you saw with the change.""")
