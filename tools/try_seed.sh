#!/bin/sh
# usage: tools/try_seed.sh <tree-with-change> <Cxx> [more Cxx...]   — runs quick checks against a scratch tree
# (the seeded change applied in a worktree outside /repo and /verif); /repo and evidence/ are not touched.
TREE="$1"; shift
for id in "$@"; do
  VERIF_REPO="$TREE" /verif/check "$id" --tier quick 2>&1 | grep -v "^KNOWN-FINDING" | cut -c1-400 | head -8
done
