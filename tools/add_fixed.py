#!/venv/bin/python
"""usage: tools/add_fixed.py Cxx <commit> <bucket> <what failed>  — records a repaired defect (suppresses nothing)."""
import json, os, sys
HERE = os.path.dirname(os.path.dirname(os.path.abspath(__file__)))
prop, commit, bucket, what = sys.argv[1:5]
path = os.path.join(HERE, "known_findings.json")
doc = json.load(open(path))
doc["findings"].append({"property": prop, "status": "fixed", "bucket": bucket, "commit": commit, "what": what,
                        "line": "fixed: property=%s %s %s" % (prop, commit, what)})
doc["findings"].sort(key=lambda e: (e["property"], e["status"], e["bucket"]))
json.dump(doc, open(path, "w"), ensure_ascii=False, indent=1)
