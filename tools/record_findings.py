#!/venv/bin/python
"""Developer tool (never run by a check): turn the replay files of the last run of a property into
'known' entries of known_findings.json, after they were triaged by hand as genuine defects.
usage: tools/record_findings.py C05 "<root-cause note>" [bucket-prefix-filter]"""
import glob, json, os, sys
HERE = os.path.dirname(os.path.dirname(os.path.abspath(__file__)))
prop, note = sys.argv[1], sys.argv[2]
flt = sys.argv[3] if len(sys.argv) > 3 else ""
path = os.path.join(HERE, "known_findings.json")
doc = json.load(open(path))
have = {(e["property"], e["bucket"]) for e in doc["findings"]}
n = 0
for p in sorted(glob.glob(os.path.join(HERE, "replays", prop + "-*.json"))):
    r = json.load(open(p))
    if flt and not r["bucket"].startswith(flt):
        continue
    if (prop, r["bucket"]) in have:
        continue
    doc["findings"].append({"property": prop, "status": "known", "bucket": r["bucket"],
                            "what": "%s: %s" % (note, r["detail"][:300]), "case": r["case"]})
    n += 1
doc["findings"].sort(key=lambda e: (e["property"], e["bucket"]))
json.dump(doc, open(path, "w"), ensure_ascii=False, indent=1)
print("added", n)
