#!/bin/sh
# Developer tool: builds the seconds-long regression tier.  For the pinned tree (before the fix: commits) and for every seeded
# change, the property's quick check is run against a scratch worktree; every shrunk failing case that is NOT a recorded
# finding is saved as regressions/<Cxx>/<origin>-<hash>.json.  On the unchanged tree these cases pass (each check replays
# its regressions first, in a forked child); if one of those defects returns, the replay fails within seconds.
# usage: tools/harvest_regressions.sh pinned | tools/harvest_regressions.sh seeds [ids...]
cd /verif || exit 2
MODE="$1"; shift
WT=/tmp/harvest_$$
harvest() {  # $1 = property, $2 = origin label
  for f in replays/$1-*.json; do
    [ -f "$f" ] || continue
    h=$(basename "$f" .json | sed "s/^$1-//")
    mkdir -p "regressions/$1"
    /venv/bin/python - "$f" "regressions/$1/$2-$h.json" "$2" <<'PY'
import json, sys
src, dst, origin = sys.argv[1:4]
d = json.load(open(src))
json.dump({"property": d["property"], "origin": origin, "bucket_when_broken": d["bucket"], "stage": d.get("stage"), "case": d["case"]},
          open(dst, "w"), ensure_ascii=False, indent=1)
PY
  done
}
if [ "$MODE" = "pinned" ]; then
  git -C /repo worktree add -q --detach "$WT" c8c8cb2 || exit 2
  for c in C02 C03 C04 C08 C10 C13 C14 C17 C18 C19; do
    VERIF_REPO="$WT" ./check "$c" --tier quick > /dev/null 2>&1
    harvest "$c" pinned
  done
else
  git -C /repo worktree add -q --detach "$WT" HEAD || exit 2
  IDS="$*"; [ -z "$IDS" ] && IDS=$(ls seeded | grep '^C[0-9]' | sort)
  for d in $IDS; do
    git -C "$WT" checkout -q -- . && git -C "$WT" clean -fdq
    git -C "$WT" apply "/verif/seeded/$d/patch.diff" || continue
    prop=$(echo "$d" | cut -c1-3)
    case "$d" in C13b|C07c|C08d|C11d|C01e|C02e|C01f|C04f|C09f) prop="C03";; C11e) prop="C20";; esac
    VERIF_REPO="$WT" ./check "$prop" --tier quick > /dev/null 2>&1
    harvest "$prop" "seed-$d"
  done
fi
git -C /repo worktree remove --force "$WT"
ls regressions/* | wc -l
