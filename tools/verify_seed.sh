#!/bin/sh
# usage: tools/verify_seed.sh Cxx [suffix]  — confirms a sub-agent's seeded change myself, in its scratch worktree:
#   demo passes on /repo, demo fails on the changed tree, the unedited test suite passes on the changed tree.
ID="$1"; SFX="$2"
WT=/tmp/wt_$ID; SD=/tmp/seed_$ID$SFX
[ -f "$SD/demo.py" ] || { echo "$ID: no demo"; exit 2; }
git -C "$WT" diff > "$SD/patch.verified.diff"
[ -s "$SD/patch.verified.diff" ] || { echo "$ID: worktree has no change"; exit 2; }
( cd /tmp && PYTHONPATH=/repo TZ=UTC /venv/bin/python "$SD/demo.py" >/tmp/seed_out_$ID$SFX.a 2>&1 ); A=$?
( cd /tmp && PYTHONPATH="$WT" TZ=UTC /venv/bin/python "$SD/demo.py" >/tmp/seed_out_$ID$SFX.b 2>&1 ); B=$?
echo "$ID$SFX: demo on /repo rc=$A ; demo on changed tree rc=$B"
( cd "$WT" && PYTHONPATH="$WT" /venv/bin/python -m pytest -q -p no:cacheprovider --timeout=900 --continue-on-collection-errors 2>&1 | grep -E "^(FAILED|ERROR)|passed|failed" | sort > /tmp/seed_suite_$ID$SFX.txt )
tail -3 /tmp/seed_suite_$ID$SFX.txt | cut -c1-200
grep -c "^FAILED" /tmp/seed_suite_$ID$SFX.txt
