#!/bin/sh
# Re-runs every seeded change against the current checks: for each seeded/<id>/patch.diff a scratch worktree of /repo gets the
# patch, the property's quick check runs with VERIF_REPO pointing at it, and the verdict (exit 1 = caught) is tabulated.
# usage: tools/replay_seeds.sh [ids...]   (default: all)    output: seeded/REPLAY_RESULTS.txt
# GEN_ONLY=1 switches the saved regression cases off (VERIF_NO_REGRESSIONS), so the verdict says what the generators find on
# their own at VERIF_SEED (default 1); output then goes to seeded/REPLAY_RESULTS_generators_only.txt
HERE="$(cd "$(dirname "$0")/.." && pwd)"
cd "$HERE" || exit 2
WT=/tmp/seedcheck_$$
git -C /repo worktree add -q --detach "$WT" HEAD || exit 2
OUT=seeded/REPLAY_RESULTS.txt
[ -n "$GEN_ONLY" ] && { OUT=seeded/REPLAY_RESULTS_generators_only.txt; export VERIF_NO_REGRESSIONS=1; }
[ $# -eq 0 ] && : > "$OUT"
IDS="$*"
[ -z "$IDS" ] && IDS=$(ls seeded | grep '^C[0-9]' | sort)
for d in $IDS; do
  git -C "$WT" checkout -q -- . && git -C "$WT" clean -fdq
  git -C "$WT" apply "$HERE/seeded/$d/patch.diff" || { echo "$d patch-does-not-apply" >> "$OUT"; continue; }
  prop=$(echo "$d" | cut -c1-3)
  checks="$prop"
  case "$d" in C13b|C07c|C08d|C11d|C01e|C02e|C01f|C04f|C09f|C07g|C07i|C13i) checks="C03";; C11e) checks="C20";; C07b) checks="C07 C03";; C05g) checks="C05 C03";; C11i) checks="C16 C19";; esac
  for c in $checks; do
    VERIF_REPO="$WT" ./check "$c" --tier quick > /tmp/replay_$$.log 2>&1; rc=$?
    b=$(grep -v KNOWN-FINDING /tmp/replay_$$.log | grep -m1 "bucket=" | sed 's/detail=.*//' | cut -c1-120)
    echo "$d check=$c rc=$rc $b" >> "$OUT"
  done
done
git -C /repo worktree remove --force "$WT"
rm -f /tmp/replay_$$.log
cat "$OUT"
