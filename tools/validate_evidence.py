import json, sys, glob, jsonschema
sch = json.load(open("/root/.vp/EVIDENCE.schema.json"))
for p in sorted(glob.glob("/verif/evidence/*.json")):
    try:
        jsonschema.validate(json.load(open(p)), sch); print("ok ", p)
    except Exception as e:
        print("BAD", p, str(e)[:300])
