#!/bin/sh
# Runs the repository's test suite (guard off: no DATEPARSER_VERIF in env) and prints the summary line and
# the failing ids; the pinned tree has exactly 5 failures + 1 collection error (missing optional deps).
cd /repo && env -u DATEPARSER_VERIF /venv/bin/python -m pytest -q -p no:cacheprovider --timeout=900 --continue-on-collection-errors 2>&1 | grep -E "^(FAILED|ERROR)|passed|failed" | sort
