"""C04 — relative expressions are exact calendar arithmetic on the base (DESIGN.md §4 C04)."""
import datetime as dt
from fractions import Fraction

from hypothesis import strategies as st

from dateparser.date import DateDataParser
from vlib import clock, gen, tz as vtz
from vlib.gen import mdays
from vlib.runner import Stage

ID = "C04"
RULE = ("Hypothesis draws a base b in [1800,2200] (month ends, leap days, midnight over-weighted), given either as "
        "RELATIVE_BASE or as the frozen clock, and a phrase from the grammar '<n> <unit>[s] [, <n> <unit>...] ago' / "
        "'in <n> <unit>...' (1-3 distinct units of the 8; n from {0,1,2,11,12,13} u 0..60 u 0..5000; decimals with '.' or "
        "',' for second/minute/hour) or a fixed word (now/today/yesterday/tomorrow, last|next|this week|month|year, day "
        "before yesterday/after tomorrow), optionally followed by a clock time (one of them equal to the base's own time) "
        "and RETURN_TIME_AS_PERIOD. Oracle: independent integer month arithmetic with clamping + exact timedelta (both "
        "application orders accepted when they differ), None when out of range, period by the property's rule. Implicit-now "
        "stage: frozen instant x TIMEZONE x TO_TIMEZONE against pytz. Non-trivial = month-like unit on a month-end/leap-day "
        "base, or n>=12 months, or multi-unit, or clock time, or out-of-range result, or a TIMEZONE/TO_TIMEZONE pair; "
        "distinct on (unit set, direction, base class, n class, time?, period flag).")
ASSUMPTIONS = ["process TZ=UTC", "when month-like and day-like units are mixed and clamping makes the two application orders differ, both are accepted",
               "implicit-now cases where the zone's UTC offset differs between 'now' and the result are skipped (counted)",
               "decimal counts are limited to 3 places (float rounding below 1 microsecond is not part of the claim)"]
ESSENTIAL = ["base:month-end", "base:leap-day", "base:midnight", "units:3", "clock-time", "out-of-range", "result-at-range-end", "fixed-word",
             "decimal", "implicit-now:tz-pair"]

UNITS = ["second", "minute", "hour", "day", "week", "month", "year", "decade"]
FIXED = {
    "now": ("second", 0, -1), "today": ("day", 0, -1), "yesterday": ("day", 1, -1), "tomorrow": ("day", 1, 1),
    "last week": ("week", 1, -1), "next week": ("week", 1, 1), "this week": ("week", 0, -1),
    "last month": ("month", 1, -1), "next month": ("month", 1, 1), "this month": ("month", 0, -1),
    "last year": ("year", 1, -1), "next year": ("year", 1, 1), "this year": ("year", 0, -1),
    "day before yesterday": ("day", 2, -1), "day after tomorrow": ("day", 2, 1),
}
US = {"second": 10 ** 6, "minute": 60 * 10 ** 6, "hour": 3600 * 10 ** 6, "day": 86400 * 10 ** 6, "week": 7 * 86400 * 10 ** 6}


class _Out(Exception):
    pass


def add_months(d, k):
    total = d.year * 12 + (d.month - 1) + k
    y, m = divmod(total, 12)
    m += 1
    if not 1 <= y <= 9999:
        raise _Out()
    return d.replace(year=y, month=m, day=min(d.day, mdays(y, m)))


def add_us(d, us):
    try:
        return d + dt.timedelta(microseconds=us)
    except OverflowError:
        raise _Out()


def expected(base, terms, sign, clock_time):
    """terms: [(unit, count-as-string)] -> set of acceptable datetimes (or {None})."""
    months = 0
    us = Fraction(0)
    for unit, num in terms:
        q = Fraction(num.replace(",", "."))
        if unit == "decade":
            months += int(q) * 120
        elif unit == "year":
            months += int(q) * 12
        elif unit == "month":
            months += int(q)
        else:
            us += q * US[unit]
    us = int(round(us))
    outs = set()
    for order in (0, 1):
        try:
            if order == 0:
                r = add_us(add_months(base, sign * months), sign * us)
            else:
                r = add_months(add_us(base, sign * us), sign * months)
        except _Out:
            r = None
        if r is not None and clock_time is not None:
            r = r.replace(hour=clock_time[0], minute=clock_time[1], second=clock_time[2], microsecond=0)
        outs.add(r)
    return outs


def expected_period(terms, has_clock, time_as_period):
    if time_as_period and has_clock:
        return "time"
    units = {u for u, _ in terms}
    if "day" in units:
        return "day"
    for u in ("week", "month", "year"):
        if u in units or (u == "year" and "decade" in units):
            return u
    return "day"


def render_clock(ct, style):
    h, m, s = ct
    h12 = h % 12 or 12
    ap = "AM" if h < 12 else "PM"
    if style == 0:
        return "%02d:%02d" % (h, m), (h, m, 0)
    if style == 1:
        return "at %d %s" % (h12, ap), (h, 0, 0)
    if style == 2:
        return "%d:%02d:%02d %s" % (h12, m, s, ap.lower()), (h, m, s)
    if style == 3:
        return "at %02d:%02d:%02d" % (h, m, s), (h, m, s)
    return "%d:%02d %s" % (h12, m, ap), (h, m, 0)


def build_phrase(case):
    if case["fixed"]:
        unit, n, sign = FIXED[case["fixed"]]
        phrase = case["fixed"]
        terms = [(unit, str(n))]
    else:
        sign = case["sign"]
        terms = [(u, n) for u, n in case["terms"]]
        parts = []
        for u, n in terms:
            plural = "" if n == "1" else "s"
            parts.append("%s %s%s" % (n, u, plural))
        body = case["joiner"].join(parts)
        phrase = ("in " + body) if sign > 0 else (body + " ago")
    ct = None
    if case["clock"] is not None:
        txt, ct = render_clock(case["clock"], case["clock_style"])
        phrase = phrase + " " + txt
    return phrase, terms, sign, ct


def check_case(case):
    if case.get("kind") == "implicit":
        return check_implicit(case)
    base = gen.to_dt(case["base"])
    phrase, terms, sign, ct = build_phrase(case)
    settings = {}
    if case["time_as_period"]:
        settings["RETURN_TIME_AS_PERIOD"] = True
    if case["via"] == "base":
        settings["RELATIVE_BASE"] = base
        clock.freeze(dt.datetime(2001, 2, 3, 4, 5, 6))
    else:
        clock.freeze(base)
    try:
        dd = DateDataParser(languages=["en"], settings=settings or None).get_date_data(phrase)
    finally:
        clock.freeze(None)
    want = expected(base, terms, sign, ct)
    units = sorted({u for u, _ in terms})
    bcls = gen.day_class(case["base"])
    cls = ["via:" + case["via"], "units:%d" % len(terms), "dir:" + ("in" if sign > 0 else "ago")] + ["base:" + c for c in bcls]
    if case["fixed"]:
        cls.append("fixed-word")
    if ct is not None:
        cls.append("clock-time")
        if ct == (base.hour, base.minute, base.second) and base.microsecond == 0:
            cls.append("clock-time-equals-base")
    if any(("." in n or "," in n) for _, n in terms):
        cls.append("decimal")
    if want == {None}:
        cls.append("out-of-range")
    elif any(w is not None and (w.year >= 9997 or w.year <= 3) for w in want):
        cls.append("result-at-range-end")
    monthlike = any(u in ("month", "year", "decade") for u in units)
    nmax = max(int(Fraction(n.replace(",", "."))) for _, n in terms)
    ncls = "0" if nmax == 0 else "1" if nmax == 1 else "<12" if nmax < 12 else "<=60" if nmax <= 60 else "big"
    nontrivial = ((monthlike and ("month-end" in bcls or "leap-day" in bcls)) or ("month" in units and nmax >= 12)
                  or len(terms) > 1 or ct is not None or want == {None})
    key = (tuple(units), sign, tuple(bcls), ncls, ct is not None, case["time_as_period"], case["fixed"]) if nontrivial else None
    got = dd.date_obj
    if got not in want:
        return {"ok": False, "bucket": "value:%s:%s%s" % ("+".join(units), "in" if sign > 0 else "ago",
                                                         ":none" if got is None else ":range" if want == {None} else ""),
                "detail": "%r with base %s (via %s) -> %r, expected %s" % (phrase, base, case["via"], got, sorted(map(str, want))),
                "key": key, "cls": cls}
    if got is not None:
        wp = expected_period(terms, ct is not None, case["time_as_period"])
        if dd.period != wp:
            return {"ok": False, "bucket": "period:%s->%s%s" % (wp, dd.period, ":clock==base" if "clock-time-equals-base" in cls else ""),
                    "detail": "%r with base %s settings %r -> period %r, expected %r" % (phrase, base, {k: v for k, v in settings.items() if k != "RELATIVE_BASE"}, dd.period, wp),
                    "key": key, "cls": cls}
        if got.tzinfo is not None:
            return {"ok": False, "bucket": "aware", "detail": "%r -> aware %r" % (phrase, got), "key": key, "cls": cls}
    return {"ok": True, "key": key, "cls": cls}


def check_implicit(case):
    """Without RELATIVE_BASE the base is the current instant expressed in TIMEZONE (then TO_TIMEZONE)."""
    inst = gen.to_dt(case["now"])  # naive UTC
    tzname, to_tz = case["tz"], case["to_tz"]
    unit, n, sign = case["unit"], case["n"], case["sign"]
    phrase = ("in %d %s" % (n, unit)) if sign > 0 else ("%d %s ago" % (n, unit))
    settings = {}
    if tzname:
        settings["TIMEZONE"] = tzname
    if to_tz:
        settings["TO_TIMEZONE"] = to_tz
    cls = ["implicit-now", "implicit-now:tz-pair" if (tzname and to_tz) else "implicit-now:single"]
    z = vtz.oracle_tz(tzname) if tzname else dt.timezone.utc
    aware = inst.replace(tzinfo=dt.timezone.utc).astimezone(z)
    off = aware.utcoffset()
    if unit in ("month", "year", "decade"):
        # calendar steps are taken on the wall clock of the base *in TIMEZONE* (clamping at that zone's month ends); what the
        # base looks like in TO_TIMEZONE only matters for the final re-expression
        cls.append("implicit-now:calendar-unit")
        ws = expected(aware.replace(tzinfo=None), [[unit, str(n)]], sign, None)
        wall = next(iter(ws))
        if wall is None:
            return {"ok": True, "skip": "implicit now: result out of range", "cls": cls}
        if aware.replace(tzinfo=None).day != wall.day:
            cls.append("implicit-now:clamped")
        if to_tz and aware.astimezone(vtz.oracle_tz(to_tz)).replace(tzinfo=None).date() != aware.replace(tzinfo=None).date():
            cls.append("implicit-now:zones-on-different-days")
    else:
        wall = aware.replace(tzinfo=None) + sign * dt.timedelta(microseconds=n * US[unit])
    res_inst = (wall - off).replace(tzinfo=dt.timezone.utc)
    if res_inst.astimezone(z).utcoffset() != off:
        return {"ok": True, "skip": "zone offset changes between now and result", "cls": cls}
    want = res_inst.astimezone(vtz.oracle_tz(to_tz)).replace(tzinfo=None) if to_tz else wall
    clock.freeze(inst)
    try:
        dd = DateDataParser(languages=["en"], settings=settings or None).get_date_data(phrase)
    finally:
        clock.freeze(None)
    key = ("implicit", tzname, to_tz)
    if dd.date_obj != want:
        return {"ok": False, "bucket": "implicit-now:%s" % ("to_tz" if to_tz else "tz" if tzname else "local"),
                "detail": "%r at frozen UTC %s, settings %r -> %r, expected %r" % (phrase, inst, settings, dd.date_obj, want),
                "key": key, "cls": cls}
    return {"ok": True, "key": key, "cls": cls}


counts = st.one_of(st.sampled_from([0, 1, 2, 11, 12, 13]), st.integers(0, 60), st.integers(0, 5000))


@st.composite
def cases(draw):
    base = draw(gen.ref_times(1800, 2200))
    base[6] = draw(st.sampled_from([0, 0, 0, 0, 123456]))
    via = draw(st.sampled_from(["base", "clock"]))
    fixed = None
    terms, sign, joiner = [], 1, " "
    if draw(st.integers(0, 5)) == 0:
        fixed = draw(st.sampled_from(sorted(FIXED)))
    else:
        k = draw(st.sampled_from([1, 1, 2, 2, 3]))
        units = draw(st.lists(st.sampled_from(UNITS), min_size=k, max_size=k, unique=True))
        # largest-first is the usual way to write it, but every order must add up ("2 years 1 decade ago")
        if draw(st.integers(0, 2)):
            units.sort(key=UNITS.index, reverse=True)
        for u in units:
            n = draw(counts)
            if u == "decade":
                n = n % 800
            s = str(n)
            if u in ("second", "minute", "hour") and draw(st.integers(0, 6)) == 0:
                frac = draw(st.sampled_from(["5", "25", "75", "1", "125", "05"]))
                # ',' doubles as a separator between units ("1 year, 2 months"), so a comma decimal is only
                # unambiguous in a single-unit phrase; multi-unit phrases use '.'
                s = "%d%s%s" % (n, draw(st.sampled_from([".", ","])) if k == 1 else ".", frac)
            terms.append([u, s])
        sign = draw(st.sampled_from([1, -1]))
        joiner = draw(st.sampled_from([" ", ", ", " and ", " "]))
        if draw(st.integers(0, 11)) == 0:
            # aimed at the ends of the representable range: the year part carries the base exactly into one of the years
            # 9997..10001 (future) or -1..3 (past); only decades (+ years) reach that far from bases in 1800-2200
            target = draw(st.sampled_from([9997, 9998, 9999, 9999, 10000, 10001])) if sign == 1 else draw(st.sampled_from([-1, 0, 1, 1, 2, 3]))
            q, r = divmod(abs(target - base[0]), 10)
            terms = [["decade", str(q)]]
            if r or draw(st.booleans()):
                terms.append(["year", str(r)])
            if draw(st.integers(0, 3)) == 0:
                terms.append([draw(st.sampled_from(["month", "day", "hour"])), str(draw(st.sampled_from([0, 1, 11, 12])))])
            terms = list(draw(st.permutations(terms)))
    clk = None
    style = 0
    if draw(st.integers(0, 2)) == 0:
        style = draw(st.integers(0, 4))
        if draw(st.integers(0, 3)) == 0:
            clk = [base[3], base[4], base[5]]
        else:
            clk = [draw(gen.hours), draw(gen.minsec), draw(gen.minsec)]
    return {"base": base, "via": via, "fixed": fixed, "terms": terms, "sign": sign, "joiner": joiner,
            "clock": clk, "clock_style": style, "time_as_period": draw(st.booleans())}


@st.composite
def implicit_cases(draw):
    now = draw(gen.ref_times(1950, 2037))
    pool = [z for z in vtz.TZ_POOL_SMALL if z != "Z"]
    # abbreviations and offsets are matched case-insensitively by the library ('pkt', 'Gmt-3'); IANA names keep their case
    cased = st.sampled_from(pool).map(lambda z: z if "/" in z else z.lower()) | st.sampled_from(
        ["pkt", "Pkt", "ist", "Gmt-3", "gmt+5", "utc+05:30", "aest", "Pst", "pdt", "PKT", "NZDT", "nzdt"])
    tzname = draw(st.one_of(st.none(), st.sampled_from(pool), cased))
    to_tz = draw(st.one_of(st.none(), st.sampled_from(pool), cased))
    unit = draw(st.sampled_from(["second", "minute", "hour", "month", "year", "month", "decade"]))
    n = draw(st.integers(0, 59)) if unit in ("second", "minute") else draw(st.integers(0, 1)) if unit == "hour" else draw(st.sampled_from([1, 1, 2, 3, 11, 12, 13]))
    if unit in ("month", "year", "decade"):
        # month ends / leap days in the last or first hours of the day, where two zones sit on different calendar days
        y = draw(st.integers(1952, 2036))
        m = draw(st.integers(1, 12))
        last = gen.mdays(y, m)
        d = draw(st.sampled_from([last, last, last - 1, 1, 29 if last >= 29 else last, 30 if last >= 30 else last]))
        now = [y, m, d, draw(st.sampled_from([0, 1, 2, 11, 20, 21, 22, 23])), draw(st.sampled_from([0, 30, 59])), 0, 0]
    return {"kind": "implicit", "now": now, "tz": tzname, "to_tz": to_tz, "unit": unit, "n": n,
            "sign": draw(st.sampled_from([1, -1]))}


def _grid(ctx):
    """thorough: exhaustive single-unit grid: units x n in 0..5000 x 2 directions x 64 fixed bases."""
    bases = []
    for y in (1800, 1899, 1900, 1999, 2000, 2020, 2100, 2200):
        for (m, d) in ((1, 31), (2, 28), (3, 31), (5, 31), (8, 31), (10, 31), (12, 31), (6, 15)):
            bases.append([y, m, d, 0 if (y + m) % 2 else 13, 0 if (y + m) % 2 else 37, 0, 0])
    for i, y in enumerate((1804, 1904, 2000, 2024, 2096, 2104, 2196, 1996)):
        bases[i * 8 + 1] = [y, 2, 29, 23, 59, 59, 0]

    def it(shard, nshards):
        i = 0
        for b in bases:
            for u in UNITS:
                for sign in (1, -1):
                    i += 1
                    if i % nshards != shard:
                        continue
                    top = 800 if u == "decade" else 5000
                    for n in range(0, top + 1):
                        yield {"base": b, "via": "base", "fixed": None, "terms": [[u, str(n)]], "sign": sign, "joiner": " ",
                               "clock": None, "clock_style": 0, "time_as_period": False}
    return it


def stages(ctx):
    out = [Stage("phrases", "hyp", strategy=cases(), examples=ctx.n(40000, 400000)),
           Stage("implicit_now", "hyp", strategy=implicit_cases(), examples=ctx.n(6000, 60000))]
    if not ctx.quick:
        out.append(Stage("unit_grid", "enum", cases=_grid(ctx), exhaustive=True))
    return out
