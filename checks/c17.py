"""C17 — search_dates is total; hits are well-formed, in-text, in order (DESIGN.md §4 C17)."""
import datetime as dt
import json
import os
import re
import traceback

from hypothesis import strategies as st

from vlib import clock, data
from vlib.runner import VERIF, Stage, derive_seed

ID = "C17"
RULE = ("Hypothesis builds a text of up to ~300 characters from 1-4 segments, each a corpus date string of a drawn language, a "
        "repository search text, or filler prose (skip words of that language, English filler, numbers, CJK and Arabic "
        "punctuation), joined and mutated with punctuation, doubled spaces, line breaks and sentence enders at the very end; the "
        "language argument is one language (every one of the 205 is used by the walk stage; the no-word-spacing ones are "
        "over-weighted), 2-3 languages, or autodetection; with/without RELATIVE_BASE; add_detected_language on/off. Oracle: no "
        "exception; result None or a non-empty list; tuples of arity 2 (3 with the language); the substring is a non-blank str "
        "that, whitespace removed, occurs in the whitespace-free text at or after the previous hit's start; the value is a datetime; the "
        "language element is a single code among the requested ones. Non-trivial = at least one hit, or the text contains a "
        "corpus date string of the requested language; distinct on (language argument, number of hits, text).")
ASSUMPTIONS = ["frozen clock", "languages given are valid codes (invalid codes raise the documented ValueError and belong to C02)",
               "autodetection over all 205 languages costs ~0.3 s per text, so it gets a tenth of the cases"]
ESSENTIAL = ["lang:single", "lang:multi", "lang:auto", "hits>=1", "hits>=2", "no-word-spacing", "with-relative-base", "add-language",
             "ends-with-sentence-ender"]

NOW = dt.datetime(2015, 6, 15, 10, 30)
BASES = [None, [2000, 1, 31, 12, 0, 0, 0], [2023, 12, 31, 23, 59, 59, 0]]
_corpus, _texts, _by_lang = [], [], {}


def corpus():
    if not _corpus:
        with open(os.path.join(VERIF, "corpus", "strings.json")) as f:
            _corpus.extend(json.load(f))
        with open(os.path.join(VERIF, "corpus", "texts.json")) as f:
            _texts.extend(json.load(f))
        for e in _corpus:
            lang = e["locale"] if e["locale"] in data.language_order() else e["locale"].rsplit("-", 1)[0]
            _by_lang.setdefault(lang, []).append(e["s"])
    return _corpus


def nws_languages():
    return [L for L in data.language_order() if "no_word_spacing" in data.raw_info(L)]


def _nows(s):
    return re.sub(r"\s+", "", s)


def check_case(case):
    from dateparser.search import search_dates
    text, langs = case["text"], case["langs"]
    add_lang = case["add_lang"]
    base = BASES[case["base"]]
    settings = {"RELATIVE_BASE": dt.datetime(*base)} if base else None
    cls = ["lang:" + ("auto" if not langs else "single" if len(langs) == 1 else "multi")]
    if langs and any("no_word_spacing" in data.raw_info(L) for L in langs):
        cls.append("no-word-spacing")
    if base:
        cls.append("with-relative-base")
    if add_lang:
        cls.append("add-language")
    if re.search(r"[.!?。！？…]\s*$", text):
        cls.append("ends-with-sentence-ender")
    clock.freeze(NOW)
    try:
        try:
            res = search_dates(text, languages=langs, settings=settings, add_detected_language=add_lang)
        except Exception as e:
            tb = traceback.extract_tb(e.__traceback__)
            frame = next((f for f in reversed(tb) if "/dateparser/" in f.filename), tb[-1])
            where = "%s:%s" % (os.path.basename(frame.filename), frame.name)
            return {"ok": False, "bucket": "raises:%s:%s" % (type(e).__name__, where),
                    "detail": "search_dates(%r, languages=%r, settings=%r, add_detected_language=%r) raised %s: %s at %s:%d"
                              % (text, langs, base, add_lang, type(e).__name__, str(e)[:100], frame.filename, frame.lineno),
                    "key": ("raise", tuple(langs or ()), text), "cls": cls}
    finally:
        clock.freeze(None)
    nh = 0 if res is None else len(res) if isinstance(res, list) else -1
    if nh >= 1:
        cls.append("hits>=1")
    if nh >= 2:
        cls.append("hits>=2")
    nontrivial = nh >= 1 or case.get("has_date")
    key = (tuple(langs or ()), nh, text) if nontrivial else None

    def fail(bucket, what):
        return {"ok": False, "bucket": bucket, "detail": "search_dates(%r, languages=%r, settings=%r, add_detected_language=%r) -> %r: %s"
                % (text, langs, base, add_lang, res, what), "key": key, "cls": cls}
    if res is None:
        return {"ok": True, "key": key, "cls": cls}
    if not isinstance(res, list) or not res:
        return fail("shape:not-none-or-nonempty-list", "result is neither None nor a non-empty list")
    flat = _nows(text)
    # the documented preprocessing for Russian replaces 'с <digit>' by a placeholder; compare against both texts
    pos = 0
    for t in res:
        if not isinstance(t, tuple) or len(t) != (3 if add_lang else 2):
            return fail("shape:tuple-arity", "tuple %r has the wrong arity" % (t,))
        sub, val = t[0], t[1]
        if not isinstance(sub, str) or not sub.strip():
            return fail("substring:blank", "blank substring in %r" % (t,))
        if not isinstance(val, dt.datetime):
            return fail("shape:value-not-datetime", "value %r is not a datetime" % (val,))
        if add_lang:
            if not isinstance(t[2], str) or (langs and t[2] not in langs) or t[2] not in data.language_order():
                return fail("language:not-requested", "language element %r not among %r" % (t[2], langs))
        fsub = _nows(sub)
        at = flat.find(fsub, pos)
        if at < 0:
            if flat.find(fsub) < 0:
                return fail("substring:not-in-text", "substring %r does not occur in the text" % sub)
            return fail("substring:out-of-order", "substring %r occurs only before the previous hit" % sub)
        pos = at
    return {"ok": True, "key": key, "cls": cls}


FILLER_EN = ["the", "meeting", "was", "held", "on", "and", "then", "report", "due", "by", "see", "you", "at", "from", "until",
             "between", "since", "published", "updated", "No.", "vol", "page", "42", "7", "2015", "100", "3.14", "A-12"]
PUNCT = [",", ".", ";", ":", "!", "?", " - ", " — ", "(", ")", "[", "]", "\"", "'", "。", "、", "！", "؟", "،", "…", "|", "/", "·", "«", "»"]
JOINERS = [" ", " ", ", ", ". ", "; ", "\n", "\n\n", "  ", " - ", "。", "، ", "! ", "? ", ": ", " (", ") ", "\t"]
ENDERS = ["", "", ".", "!", "?", "...", "。", "…", ".\n", " .", ". ", "؟", "!!"]


@st.composite
def texts(draw, lang):
    corpus()
    segs = []
    has_date = False
    n = draw(st.integers(1, 4))
    skipw = [w for w in data.raw_info(lang).get("skip", []) if w.strip()] or FILLER_EN
    for _ in range(n):
        k = draw(st.integers(0, 5))
        if k <= 2 and _by_lang.get(lang):
            segs.append(draw(st.sampled_from(_by_lang[lang])))
            has_date = True
        elif k == 3:
            segs.append(draw(st.sampled_from(_by_lang.get("en", ["1 January 2015"]))))
        elif k == 4 and _texts:
            segs.append(draw(st.sampled_from(_texts))[:120])
        else:
            words = draw(st.lists(st.one_of(st.sampled_from(skipw), st.sampled_from(FILLER_EN), st.sampled_from(PUNCT),
                                            st.integers(0, 3000).map(str)), min_size=1, max_size=6))
            segs.append(" ".join(words))
    out = segs[0]
    for sg in segs[1:]:
        out += draw(st.sampled_from(JOINERS)) + sg
    # mutations
    for _ in range(draw(st.integers(0, 3))):
        if not out:
            break
        i = draw(st.integers(0, len(out)))
        m = draw(st.integers(0, 4))
        if m == 0:
            out = out[:i] + draw(st.sampled_from(PUNCT)) + out[i:]
        elif m == 1:
            out = out[:i] + "  " + out[i:]
        elif m == 2:
            out = out[:i] + "\n" + out[i:]
        elif m == 3 and i < len(out):
            out = out[:i] + out[i + 1:]
        else:
            out = out[:i] + draw(st.sampled_from(["(", ")", "'", "\"", "-", ".", ","])) + out[i:]
    out = draw(st.sampled_from(["", "", " ", "\n", "(", "- "])) + out + draw(st.sampled_from(ENDERS))
    return out[:300], has_date


@st.composite
def cases(draw):
    order = data.language_order()
    nws = nws_languages()
    mode = draw(st.integers(0, 9))
    if mode == 0:
        langs = None
        lang = draw(st.sampled_from(order[:20]))
    elif mode <= 2:
        langs = draw(st.lists(st.one_of(st.sampled_from(order[:30]), st.sampled_from(order)), min_size=2, max_size=3, unique=True))
        lang = langs[0]
    elif mode <= 5:
        lang = draw(st.sampled_from(nws))
        langs = [lang]
    else:
        lang = draw(st.one_of(st.sampled_from(order[:40]), st.sampled_from(order)))
        langs = [lang]
    text, has_date = draw(texts(lang))
    return {"text": text, "langs": langs, "add_lang": draw(st.booleans()), "base": draw(st.sampled_from([0, 0, 1, 2])),
            "has_date": has_date}


def _language_walk(ctx):
    """every one of the 205 languages given explicitly, with its own corpus strings and fixed frames."""
    frames = ["%s", "%s.", "x %s", "%s, %s", "(%s)", "%s\n%s", "on %s and then 12 %s"]

    def it(shard, nshards):
        corpus()
        for i, lang in enumerate(data.language_order()):
            if i % nshards != shard:
                continue
            own = _by_lang.get(lang) or []
            inf = data.raw_info(lang)
            names = [inf[k][0] for k in data.MONTHS if inf.get(k)]
            pool = (own[:6] if ctx.quick else own[:40]) + ["12 %s 2014" % nm for nm in names[:2 if ctx.quick else 12]]
            for j, s in enumerate(pool):
                for f in (frames[: 3 if ctx.quick else len(frames)]):
                    text = f.replace("%s", s)
                    yield {"text": text[:300], "langs": [lang], "add_lang": (j % 2 == 0), "base": j % 3, "has_date": True}
    return it


def stages(ctx):
    return [Stage("language_walk", "enum", cases=_language_walk(ctx), exhaustive=False),
            Stage("texts", "hyp", strategy=cases(), examples=ctx.n(12000, 300000))]


def extra_phase(ctx, known, total):
    """thorough tier: coverage-guided campaign (atheris/libFuzzer over the same strategy and oracle)"""
    from vlib import coverage_stage
    return coverage_stage.run(ctx, known, total, ID, ctx.n(0, 5000))
