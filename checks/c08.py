"""C08 — missing day/month are completed exactly as configured; period is truthful (DESIGN.md §4 C08)."""
import calendar
import datetime as dt

from hypothesis import strategies as st

from dateparser.date import DateDataParser
from vlib import clock, gen
from vlib.gen import mdays
from vlib.runner import Stage

ID = "C08"
RULE = ("Hypothesis draws year 1..9999 (zero-padded to 4 digits) x month x reference datetime (days 29-31, Feb 29 and "
        "month ends over-weighted; given as RELATIVE_BASE or as the frozen clock) x the 9 (PREFER_DAY_OF_MONTH, "
        "PREFER_MONTH_OF_YEAR) pairs x form: '<Month> <YYYY>', '<Mon> <YYYY>', '<MM>/<YYYY>', '<YYYY>-<MM>', '<YYYY>', "
        "full dates (control group), each optionally with a clock time and RETURN_TIME_AS_PERIOD; custom-format forms "
        "'%B %Y', '%m/%Y', '%Y', '%Y %H:%M', '%d %B %Y' under a frozen system clock. Oracle: day 1 / monthrange last / "
        "min(ref.day, last); month 1 / 12 / ref.month; full dates unchanged; period = finest calendar part present "
        "('time' when requested and a time is written; not asserted for incomplete date + time without the request). "
        "Non-trivial = clamping happens, or February of a leap/century year, or year<1000; distinct on (form, prefs, "
        "clamp class, leap class, year class, time?).")
ASSUMPTIONS = ["process TZ=UTC", "the custom-format parser's 'current' day/month come from the (frozen) system clock, as the property states",
               "for an incomplete date followed by a clock time the period is asserted only when RETURN_TIME_AS_PERIOD asks for 'time'"]
ESSENTIAL = ["clamp", "feb-leap", "year<1000", "form:year", "form:month_year", "form:full", "fmt:%Y", "with-time", "fmt-list:decoys"]

MONTHS = ["January", "February", "March", "April", "May", "June", "July", "August", "September", "October",
          "November", "December"]
PREFS = ["current", "first", "last"]
ABS_FORMS = ["month_year", "mon_year", "mm_slash_yyyy", "yyyy_dash_mm", "year", "full_dmy", "full_mdy", "full_iso"]
DECOYS = ["%Y", "%B %Y", "%m/%Y", "%d %B %Y", "%Y %H:%M", "%H:%M", "%d/%m/%Y", "%Y.%m.%d", "%b %Y", "%Y-%m", "%d.%m", "%B"]
FMT_FORMS = ["%B %Y", "%m/%Y", "%Y", "%Y %H:%M", "%d %B %Y", "%b %Y", "%Y-%m", "%Y-%j", "%j %Y %H:%M"]


def complete(y, m, d, ref, pday, pmonth):
    if m is None:
        m = {"first": 1, "last": 12, "current": ref.month}[pmonth]
    if d is None:
        last = mdays(y, m)
        d = {"first": 1, "last": last, "current": min(ref.day, last)}[pday]
    return y, m, d


def check_case(case):
    y, m, d = case["y"], case["m"], case["d"]
    ref = gen.to_dt(case["ref"])
    pday, pmonth = case["pday"], case["pmonth"]
    form = case["form"]
    tm = case["time"]
    tap = case["time_as_period"]
    settings = {"PREFER_DAY_OF_MONTH": pday, "PREFER_MONTH_OF_YEAR": pmonth}
    if tap:
        settings["RETURN_TIME_AS_PERIOD"] = True
    Y = "%04d" % y
    formats = None
    has_m, has_d = True, True
    if form in ABS_FORMS:
        if form == "month_year":
            s, has_d = "%s %s" % (MONTHS[m - 1], Y), False
        elif form == "mon_year":
            s, has_d = "%s %s" % (MONTHS[m - 1][:3], Y), False
        elif form == "mm_slash_yyyy":
            s, has_d = "%02d/%s" % (m, Y), False
        elif form == "yyyy_dash_mm":
            s, has_d = "%s-%02d" % (Y, m), False
        elif form == "year":
            s, has_d, has_m = Y, False, False
        elif form == "full_dmy":
            s = "%d %s %s" % (d, MONTHS[m - 1], Y)
        elif form == "full_mdy":
            s = "%s %d, %s" % (MONTHS[m - 1], d, Y)
        else:
            s = "%s-%02d-%02d" % (Y, m, d)
        if tm is not None:
            s += " %02d:%02d" % (tm[0], tm[1])
        via = case["via"]
    else:
        formats = [form]
        has_m = any(x in form for x in ("%m", "%B", "%b", "%j"))  # a day of the year states month and day
        has_d = "%d" in form or "%j" in form
        s = form.replace("%B", MONTHS[m - 1]).replace("%b", MONTHS[m - 1][:3]).replace("%m", "%02d" % m)
        s = s.replace("%Y", Y).replace("%d", "%02d" % d).replace("%j", "%03d" % dt.date(y, m, d).timetuple().tm_yday)
        if "%H" in form:
            tm = tm or [7, 8]
            s = s.replace("%H", "%02d" % tm[0]).replace("%M", "%02d" % tm[1])
        else:
            tm = None
        via = "clock"  # the custom-format path reads the system clock
        # decoy formats that do not match the string (judged by the standard library's strptime, not by the library under
        # test) before and after the matching one: a format that is merely tried must leave nothing behind
        def _nomatch(f):
            try:
                dt.datetime.strptime(s, f)
            except ValueError:
                return True
            return False
        before = [f for f in case.get("decoys_before") or [] if f != form and _nomatch(f)]
        after = [f for f in case.get("decoys_after") or [] if f != form and _nomatch(f)]
        formats = before + [form] + after
    if via == "base":
        settings["RELATIVE_BASE"] = ref
        clock.freeze(dt.datetime(2001, 2, 3, 4, 5, 6))
    else:
        clock.freeze(ref)
    try:
        dd = DateDataParser(languages=["en"], settings=settings).get_date_data(s, formats)
    finally:
        clock.freeze(None)
    ey, em, ed = complete(y, m if has_m else None, d if has_d else None, ref, pday, pmonth)
    want = dt.datetime(ey, em, ed, tm[0] if tm else 0, tm[1] if tm else 0)
    if formats:
        wperiod = "year" if not has_m else "month" if not has_d else "day"
    elif tm is not None and tap:
        wperiod = "time"
    elif tm is not None and not (has_m and has_d):
        wperiod = None  # not asserted
    else:
        wperiod = "year" if not has_m else "month" if not has_d else "day"
    cls = ["form:" + ("full" if (has_m and has_d) else "year" if not has_m else "month_year"),
           "via:" + via, "pday:" + pday, "pmonth:" + pmonth]
    if formats:
        cls.append("fmt:" + form)
        if len(formats) > 1:
            cls.append("fmt-list:decoys")
    if tm is not None:
        cls.append("with-time")
    last = mdays(ey, em)
    clamp = (not has_d) and pday == "current" and ref.day > last
    if clamp:
        cls.append("clamp")
    febleap = em == 2 and (calendar.isleap(ey) or ey % 100 == 0)
    if febleap:
        cls.append("feb-leap")
    if y < 1000:
        cls.append("year<1000")
    nontrivial = clamp or febleap or y < 1000
    key = (form, pday, pmonth, clamp, febleap, "y<1000" if y < 1000 else "y", tm is not None, tap) if nontrivial else None
    got = dd.date_obj
    if got != want:
        return {"ok": False, "bucket": "value:%s:%s%s" % ("fmt" if formats else "abs", cls[0][5:], ":time" if tm is not None else ""),
                "detail": "%r formats=%r ref=%s settings=%r -> %r, expected %r" % (
                    s, formats, ref, {k: v for k, v in settings.items() if k != "RELATIVE_BASE"}, got, want),
                "key": key, "cls": cls}
    if wperiod is not None and dd.period != wperiod:
        return {"ok": False, "bucket": "period:%s:%s->%s" % ("fmt" if formats else "abs", wperiod, dd.period),
                "detail": "%r formats=%r -> period %r, expected %r" % (s, formats, dd.period, wperiod), "key": key, "cls": cls}
    return {"ok": True, "key": key, "cls": cls}


@st.composite
def refs(draw):
    y = draw(gen.years(1, 9999))
    k = draw(st.integers(0, 4))
    if k == 0:
        m = draw(st.sampled_from([1, 3, 5, 7, 8, 10, 12]))
        d = 31
    elif k == 1:
        m = draw(st.integers(1, 12))
        d = min(draw(st.sampled_from([29, 30])), mdays(y, m))
    elif k == 2 and calendar.isleap(y):
        m, d = 2, 29
    else:
        m = draw(st.integers(1, 12))
        d = draw(st.integers(1, mdays(y, m)))
    return [y, m, d, draw(gen.hours), draw(gen.minsec), 0, 0]


@st.composite
def cases(draw):
    y = draw(st.one_of(gen.years(1, 9999), st.sampled_from([4, 100, 400, 1900, 2000, 2100, 2024, 1600])))
    m = draw(st.one_of(st.integers(1, 12), st.just(2)))
    d = draw(st.integers(1, mdays(y, m)))
    form = draw(st.one_of(st.sampled_from(ABS_FORMS), st.sampled_from(ABS_FORMS), st.sampled_from(FMT_FORMS)))
    tm = None
    if draw(st.integers(0, 2)) == 0:
        tm = [draw(gen.hours), draw(gen.minsec)]
    c = {"y": y, "m": m, "d": d, "ref": draw(refs()), "pday": draw(st.sampled_from(PREFS)),
         "pmonth": draw(st.sampled_from(PREFS)), "form": form, "time": tm,
         "time_as_period": draw(st.booleans()), "via": draw(st.sampled_from(["base", "clock"]))}
    if form in FMT_FORMS and draw(st.integers(0, 1)):
        c["decoys_before"] = draw(st.lists(st.sampled_from(DECOYS), min_size=0, max_size=2, unique=True))
        c["decoys_after"] = draw(st.lists(st.sampled_from(DECOYS), min_size=0, max_size=1))
    return c


def _last_day_grid(ctx):
    """thorough: exhaustive years 1..9999 x 12 months for the last-day rule (and 'current' with a day-31 reference)."""
    def it(shard, nshards):
        for y in range(1 + shard, 10000, nshards):
            for m in range(1, 13):
                yield {"y": y, "m": m, "d": 1, "ref": [2019, 12, 31, 10, 0, 0, 0], "pday": "last" if (y + m) % 2 else "current",
                       "pmonth": "current", "form": ABS_FORMS[(y + m) % 4], "time": None, "time_as_period": False, "via": "base"}
    return it


def stages(ctx):
    out = [Stage("incomplete_dates", "hyp", strategy=cases(), examples=ctx.n(60000, 250000))]
    if not ctx.quick:
        out.append(Stage("last_day_grid", "enum", cases=_last_day_grid(ctx), exhaustive=True))
    return out
