"""Coverage-guided stage (thorough tier of C02 and C17): libFuzzer mutates the byte stream that feeds the same structured
Hypothesis strategies (atheris.Setup(argv, test.hypothesis.fuzz_one_input)); the semantic oracle is the check's own
check_case.  Usage: python -m checks.atheris_target C02 <outdir> [libFuzzer flags...]"""
import json
import os
import sys

import atheris

prop = sys.argv[1]
outdir = sys.argv[2]
argv = [sys.argv[0]] + sys.argv[3:]  # corpus dir and libFuzzer flags

with atheris.instrument_imports(include=["dateparser"]):
    import dateparser  # noqa: F401
    import dateparser.search  # noqa: F401

import importlib  # noqa: E402

from hypothesis import HealthCheck, given, settings  # noqa: E402

from vlib.runner import Known  # noqa: E402

mod = importlib.import_module("checks." + prop.lower())
known = Known(prop)
counts = {"n": 0, "nontrivial": set(), "skipped_known": 0}
strategy = mod.cases()


@settings(database=None, deadline=None, suppress_health_check=list(HealthCheck), max_examples=10 ** 9)
@given(strategy)
def test(case):
    r = mod.check_case(case)
    counts["n"] += 1
    if r.get("key") is not None:
        counts["nontrivial"].add(hash(repr(r["key"])))
    if not r["ok"]:
        if known.is_known(r["bucket"]):
            counts["skipped_known"] += 1
            return
        with open(os.path.join(outdir, "failure-%d.json" % os.getpid()), "w") as f:
            json.dump({"property": prop, "bucket": r["bucket"], "detail": r.get("detail"), "case": case}, f, ensure_ascii=False, default=repr)
        raise AssertionError(r["bucket"])


def _dump():
    with open(os.path.join(outdir, "stats-%d.json" % os.getpid()), "w") as f:
        json.dump({"executions": counts["n"], "distinct_nontrivial": len(counts["nontrivial"]), "skipped_known": counts["skipped_known"]}, f)


def one_input(data):
    try:
        test.hypothesis.fuzz_one_input(data)
    finally:
        if counts["n"] % 25 == 0:
            _dump()


atheris.Setup(argv, one_input)
atheris.Fuzz()
