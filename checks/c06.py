"""C06 — every locale's relative phrases mean what their English canon means (DESIGN.md §4 C06)."""
import datetime as dt
import re

from hypothesis import strategies as st

from dateparser.date import DateDataParser
from vlib import clock, data, gen
from vlib.runner import Stage, derive_seed

ID = "C06"
RULE = ("Complete walk over the vocabulary of the tree under test: every locale code (205 languages + 299 regional) x "
        "NORMALIZE on/off x (a) every fixed relative phrase listed under exactly one vocabulary key, (b) every counted "
        "pattern instantiated with n in {0,1,2,3,11,45,120,999,1234} (quick: {1,2,11,120,1234}) and with '1.5'/'1,5' where the pattern has the "
        "decimal group, kept when the instantiated phrase matches patterns of exactly one key of that locale and is not "
        "itself a vocabulary word. Oracle (differential): DateDataParser(languages=['en']) on the canonical key with the "
        "number substituted, under the same frozen reference time (month ends over-weighted) and settings; date_obj and "
        "period must be equal. Every non-English case is non-trivial; distinct = (locale, NORMALIZE, key, pattern/phrase, n).")
ASSUMPTIONS = ["the canonical English expression is the key the phrase or pattern is listed under, with \\1 replaced by the number",
               "the English path's own correctness is C04's subject",
               "pattern syntax beyond the number group is limited to '\\s*' and 'x?' in the data; anything else is counted as skipped"]
ESSENTIAL = ["fixed", "pattern", "norm:on", "norm:off", "regional", "decimal", "n:0", "month-end-ref"]

NUM = r"(\d+[.,]?\d*)"
DEFAULT_SKIP = ["t"]
_P = {}


def _parser(locale, lang, normalize):
    k = (locale, normalize)
    p = _P.get(k)
    if p is None:
        s = {"NORMALIZE": normalize}
        p = DateDataParser(languages=[lang], settings=s) if locale == lang else DateDataParser(locales=[locale], settings=s)
        _P[k] = p
        if len(_P) > 300:
            _P.pop(next(iter(_P)))
    return p


def instantiate(pattern, n):
    """-> list of phrases, or None when the pattern uses syntax the instantiator does not know."""
    rest = pattern.replace(NUM, "\x00")
    outs = [""]
    i = 0
    while i < len(rest):
        ch = rest[i]
        if ch == "\x00":
            outs = [o + n for o in outs]
            i += 1
        elif rest.startswith("\\s*", i):
            outs = [o + x for o in outs for x in ("", " ")]
            i += 3
        elif i + 1 < len(rest) and rest[i + 1] == "?" and ch not in "\\()[]":
            outs = [o + x for o in outs for x in ("", ch)]
            i += 2
        elif ch in "\\()[]*+|^${}?":
            return None
        else:
            outs = [o + ch for o in outs]
            i += 1
    return outs


_tables = {}


def table(locale, normalize):
    """[(kind, key, pattern_or_phrase)] single-meaning relative vocabulary of the locale."""
    k = (locale, normalize)
    if k in _tables:
        return _tables[k]
    inf = data.info(locale)
    voc = data.vocabulary(inf, False)  # single meaning is judged on the spelling as listed (see c05.names_for)
    out = []
    seen = set()
    for key, phrases in inf.get("relative-type", {}).items():
        for ph in phrases:
            w = ph.lower()
            if (key, w) in seen:
                continue
            seen.add((key, w))
            if voc.get(w, set()) != {"rel:" + key} or w in DEFAULT_SKIP or ph.strip() != ph or not ph:
                continue
            out.append(("fixed", key, ph))
    for key, pat in data.relative_patterns(inf):
        out.append(("pattern", key, pat))
    _tables[k] = out
    return out


_compiled = {}


def _pattern_keys(locale, normalize, phrase):
    """keys of the locale whose patterns (full match) accept the phrase."""
    k = (locale, normalize)
    if k not in _compiled:
        inf = data.info(locale)
        comp = []
        for key, pat in data.relative_patterns(inf):
            p = data.nfkd(pat) if normalize else pat
            try:
                comp.append((key, re.compile("^(?:%s)$" % p, re.I | re.U)))
            except re.error:
                pass
        _compiled[k] = comp
    w = data.nfkd(phrase) if normalize else phrase
    return {key for key, rx in _compiled[k] if rx.match(w)}


def check_case(case):
    locale, lang, normalize = case["locale"], case["lang"], case["norm"]
    kind, key, item, n = case["kind"], case["key"], case["item"], case["n"]
    ref = gen.to_dt(case["ref"])
    cls = [kind, "norm:on" if normalize else "norm:off"]
    if locale != lang:
        cls.append("regional")
    if ref.day == gen.mdays(ref.year, ref.month):
        cls.append("month-end-ref")
    if kind == "fixed":
        phrase = item
        canonical = key
    else:
        cls.append("n:" + n)
        if "." in n or "," in n:
            cls.append("decimal")
        phrase = case["phrase"]
        canonical = key.replace("\\1", n.replace(",", "."))
        # single meaning of the instantiated phrase
        voc = data.vocabulary(data.info(locale), False)
        w = phrase.lower()
        if w in voc and voc[w] != {"rel:" + key}:
            return {"ok": True, "skip": "instantiated phrase is also a vocabulary word", "cls": cls}
        if _pattern_keys(locale, normalize, phrase) != {key}:
            return {"ok": True, "skip": "instantiated phrase matches patterns of several keys", "cls": cls}
    clock.freeze(ref)
    try:
        want = _parser("en", "en", normalize).get_date_data(canonical)
        got = _parser(locale, lang, normalize).get_date_data(phrase)
    finally:
        clock.freeze(None)
    dkey = (locale, normalize, key, item, n)
    if (got.date_obj, got.period) != (want.date_obj, want.period):
        if want.date_obj is None and kind == "pattern":
            # the canon itself is not understood by the English path (decimal months/years): nothing to compare with
            return {"ok": True, "skip": "English canon not understood by the English path", "cls": cls}
        return {"ok": False, "bucket": "%s|%s|%s" % (lang, key, data.nfkd(item.lower())),
                "detail": "locale=%s NORMALIZE=%s ref=%s: %r -> (%r, %r); English canon %r -> (%r, %r)"
                          % (locale, normalize, ref, phrase, got.date_obj, got.period, canonical, want.date_obj, want.period),
                "key": dkey, "cls": cls}
    return {"ok": True, "key": dkey if lang != "en" else None, "cls": cls}


REFS = [[2015, 1, 31, 10, 30, 0, 0], [2016, 2, 29, 23, 59, 59, 0], [2019, 3, 31, 0, 0, 0, 0], [2021, 6, 15, 12, 0, 0, 0],
        [2020, 12, 31, 8, 5, 0, 0], [2023, 10, 30, 17, 45, 0, 0], [2024, 7, 1, 0, 0, 1, 0]]


def _ref(seed, *parts):
    return REFS[derive_seed(seed, *parts) % len(REFS)]


def _walk(ctx):
    # one-, two-, three- and four-digit counts in both tiers (rules keyed on the digit count of the number — year markers,
    # thousands separators, clock-like groups — only show at three or four digits)
    ns = ["1", "2", "11", "120", "1234"] if ctx.quick else ["0", "1", "2", "3", "11", "45", "120", "999", "1234"]

    def it(shard, nshards):
        # a language and its regional locales are walked in the same worker process (they share per-language caches),
        # the base language first for half of the languages and last for the other half
        order = data.language_order()
        for i, (locale, lang) in enumerate(_grouped_locales(ctx.seed)):
            if order.index(lang) % nshards != shard:
                continue
            regional = locale != lang
            if ctx.quick and regional and derive_seed(ctx.seed, "pick", locale) % 4 != 0:
                spec = data.raw_info(lang).get("locale_specific", {}).get(locale, {})
                if not ("relative-type" in spec or "relative-type-regex" in spec):
                    continue
            for normalize in (True, False):
                for kind, key, item in table(locale, normalize):
                    if kind == "fixed":
                        yield {"locale": locale, "lang": lang, "norm": normalize, "kind": kind, "key": key, "item": item,
                               "n": "", "ref": _ref(ctx.seed, locale, item, normalize)}
                        continue
                    values = list(ns)
                    if NUM in item:
                        values += ["1.5", "1,5"] if not ctx.quick else (["1.5"] if derive_seed(ctx.seed, item) % 3 == 0 else [])
                    if ctx.quick and "0" not in values and derive_seed(ctx.seed, locale, item) % 8 == 0:
                        values.append("0")
                    if NUM not in item:
                        values = ["1"]
                    for n in values:
                        phrases = instantiate(item, n)
                        if phrases is None:
                            yield {"locale": locale, "lang": lang, "norm": normalize, "kind": "pattern", "key": key,
                                   "item": item, "n": n, "phrase": None, "ref": REFS[0], "unsupported": True}
                            continue
                        for ph in phrases:
                            yield {"locale": locale, "lang": lang, "norm": normalize, "kind": "pattern", "key": key,
                                   "item": item, "n": n, "phrase": ph, "ref": _ref(ctx.seed, locale, item, n, normalize)}
    return it


def check_walk(case):
    if case.get("unsupported"):
        return {"ok": True, "skip": "pattern syntax not supported by the instantiator", "cls": ["pattern"]}
    return check_case(case)


@st.composite
def sampled(draw):
    locs = [l for l in data.all_locales() if table(l[0], True) and table(l[0], False)]
    locale, lang = draw(st.sampled_from(locs))
    normalize = draw(st.booleans())
    tab = table(locale, normalize)
    kind, key, item = draw(st.sampled_from(tab))
    ref = draw(gen.ref_times(1950, 2100))
    ref[6] = 0
    c = {"locale": locale, "lang": lang, "norm": normalize, "kind": kind, "key": key, "item": item, "n": "", "ref": ref}
    if kind == "pattern":
        n = str(draw(st.one_of(st.integers(0, 130), st.integers(0, 5000))))
        if NUM in item and draw(st.integers(0, 5)) == 0:
            n = "%s%s%s" % (n, draw(st.sampled_from([".", ","])), draw(st.sampled_from(["5", "25", "1"])))
        if NUM not in item:
            n = "1"
        phrases = instantiate(item, n)
        if phrases is None:
            c["unsupported"] = True
            c["phrase"] = None
        else:
            c["phrase"] = draw(st.sampled_from(phrases))
        c["n"] = n
    return c


def _grouped_locales(seed):
    out = []
    lld = data.language_locale_dict()
    for lang in data.language_order():
        regional = [(loc, lang) for loc in lld.get(lang, [])]
        if derive_seed(seed, "base-first", lang) % 2:
            out.extend([(lang, lang)] + regional)
        else:
            out.extend(regional + [(lang, lang)])
    return out


def stages(ctx):
    return [Stage("table_walk", "enum", cases=_walk(ctx), exhaustive=not ctx.quick, check=check_walk),
            Stage("sampled", "hyp", strategy=sampled(), examples=ctx.n(6000, 80000), check=check_walk)]
