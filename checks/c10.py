"""C10 — strictness only filters; strict results never borrow from the clock (DESIGN.md §4 C10)."""
import datetime as dt
import json
import os

from hypothesis import strategies as st

from dateparser.date import DateDataParser
from vlib import clock, data, gen
from vlib.gen import mdays
from vlib.runner import VERIF, Stage, derive_seed

ID = "C10"
RULE = ("Hypothesis draws either a string of the multilingual corpus (language fixed to the locale a loose autodetect parse "
        "reported) or a generated partial date: every subset of {day, month, year, weekday, time} rendered numerically or "
        "with the month/weekday names of a drawn language (languages=[L]), or an English string with a matching custom "
        "date_format, or a 10/13-digit timestamp; PARSERS a subset of {timestamp, custom-formats, absolute-time}; a mode "
        "(STRICT_PARSING, or any non-empty subset of REQUIRE_PARTS); two frozen reference times >=10 years apart with "
        "different month and day. Oracle (metamorphic): (i) strict(s) in {None, loose(s)} at each reference; (ii) STRICT: "
        "strict(s)@b1 == strict(s)@b2, REQUIRE_PARTS: every required part equal when both are non-None; (iii) for generated "
        "strings a non-None result has every demanded part written in the string. Non-trivial = loose result non-None (so "
        "strictness has something to filter or to pass through); distinct on (language, parts present, mode, source).")
ASSUMPTIONS = ["one language per case: with several candidate languages strictness legitimately changes which language's reading is accepted (C13)",
               "PREFER_DATES_FROM stays at its default (a two-digit year takes its century from the clock by design)",
               "relative-time parser is not enabled: the property is about absolute date strings"]
ESSENTIAL = ["mode:both", "zero-field", "day-without-month", "src:corpus", "src:generated", "src:format", "src:timestamp", "mode:strict", "mode:require", "filtered", "passed-through",
             "parts:none-missing", "parts:day-missing", "parts:year-missing"]

PARTS = ["day", "month", "year"]
_corpus = []


def corpus():
    if not _corpus:
        with open(os.path.join(VERIF, "corpus", "strings.json")) as f:
            _corpus.extend(json.load(f))
    return _corpus


_P = {}


def _parser(lang, settings_items):
    k = (lang, settings_items)
    p = _P.get(k)
    if p is None:
        s = {}
        for kk, v in settings_items:
            s[kk] = list(v) if isinstance(v, tuple) else v
        p = DateDataParser(languages=[lang], settings=s or None)
        _P[k] = p
        if len(_P) > 600:
            _P.pop(next(iter(_P)))
    return p


def _run(lang, s, formats, settings_items, ref):
    clock.freeze(ref)
    try:
        dd = _parser(lang, settings_items).get_date_data(s, formats)
    finally:
        clock.freeze(None)
    return dd.date_obj, dd.period


def check_case(case):
    s, lang, formats = case["s"], case["lang"], case.get("formats")
    mode = case["mode"]  # "strict" or list of required parts
    b1, b2 = gen.to_dt(case["b1"]), gen.to_dt(case["b2"])
    base = []
    both = False
    if case.get("parsers"):
        base.append(("PARSERS", tuple(case["parsers"])))
    strict_items = list(base)
    if mode == "strict":
        strict_items.append(("STRICT_PARSING", True))
        required = PARTS
    elif isinstance(mode, dict):
        # both filters together: STRICT_PARSING demands all three parts whatever REQUIRE_PARTS lists
        strict_items.append(("STRICT_PARSING", True))
        strict_items.append(("REQUIRE_PARTS", tuple(mode["both"])))
        required = PARTS
        mode = "strict"
        both = True
    else:
        strict_items.append(("REQUIRE_PARTS", tuple(mode)))
        required = list(mode)
    base, strict_items = tuple(base), tuple(strict_items)
    cls = ["src:" + case["src"], "mode:" + ("strict" if mode == "strict" else "require")]
    if case.get("zero_field"):
        cls.append("zero-field")
    if case.get("day_alone"):
        cls.append("day-without-month")
    if case.get("sep"):
        cls.append("numeric-sep:" + case["sep"])
    if case.get("leapday"):
        cls.append("format:29-february")
    if case.get("foreign_order"):
        cls.append("numeric-order:not-the-locale's")
    if both:
        cls.append("mode:both")
    present = case.get("present")
    if present is not None:
        missing = [p for p in PARTS if p not in present]
        cls.append("parts:" + ("none-missing" if not missing else "+".join(missing) + "-missing"))
        for p in missing:
            cls.append("parts:%s-missing" % p)
    res = {}
    for name, ref in (("b1", b1), ("b2", b2)):
        res["loose_" + name] = _run(lang, s, formats, base, ref)
        res["strict_" + name] = _run(lang, s, formats, strict_items, ref)
    nontrivial = res["loose_b1"][0] is not None
    key = (lang, tuple(present) if present is not None else s, "strict" if mode == "strict" else tuple(mode), case["src"],
           tuple(case.get("parsers") or ())) if nontrivial else None
    desc = "%r lang=%s formats=%r settings=%r refs=(%s, %s)" % (s, lang, formats, dict(strict_items), b1, b2)

    def fail(bucket, what):
        return {"ok": False, "bucket": "%s:%s:%s" % (bucket, case["src"], "strict" if mode == "strict" else "require"),
                "detail": "%s: %s; results=%r" % (desc, what, {k: (str(v[0]), v[1]) for k, v in res.items()}), "key": key, "cls": cls}
    for name in ("b1", "b2"):
        st_, lo_ = res["strict_" + name], res["loose_" + name]
        if st_[0] is None:
            if lo_[0] is not None:
                cls.append("filtered")
            continue
        cls.append("passed-through")
        if st_ != lo_:
            return fail("changes-result", "strictness changed a result instead of filtering it (@%s)" % name)
    a, b = res["strict_b1"][0], res["strict_b2"][0]
    if mode == "strict":
        if a != b:
            return fail("depends-on-clock", "strict result differs between reference times")
    elif a is not None and b is not None:
        for p in required:
            if getattr(a, p) != getattr(b, p):
                return fail("depends-on-clock", "required part %r differs between reference times" % p)
    elif (a is None) != (b is None) and res["loose_b1"][0] is not None and res["loose_b2"][0] is not None:
        return fail("depends-on-clock", "REQUIRE_PARTS accepts the string at one reference time only")
    if present is not None and (a is not None or b is not None):
        lacking = [p for p in required if p not in present]
        # the premise "the string states exactly these parts" only holds if the library reads the written parts the way they
        # were constructed (fr 'sept' is rewritten to 7 by a simplification and read as a day: a C05 finding, not a C10 one)
        lo = res["loose_b1"][0]
        vals = case.get("vals")
        if lacking and vals and lo is not None and any(getattr(lo, p) != vals[p] for p in present if p in vals):
            cls.append("construction-not-confirmed")
            lacking = []
        if lacking:
            return fail("accepts-incomplete", "result although the string does not state %s" % lacking)
    return {"ok": True, "key": key, "cls": cls}


MONTHS_EN = ["January", "February", "March", "April", "May", "June", "July", "August", "September", "October",
             "November", "December"]
MODES = ["strict", ["day"], ["month"], ["year"], ["day", "month"], ["day", "year"], ["month", "year"], ["day", "month", "year"],
         {"both": ["year"]}, {"both": ["month"]}, {"both": ["month", "year"]}, {"both": ["day"]}]
PARSER_SETS = [["absolute-time"], ["absolute-time"], ["custom-formats", "absolute-time"], ["timestamp", "absolute-time"],
               ["timestamp", "custom-formats", "absolute-time"]]


@st.composite
def two_refs(draw):
    b1 = draw(gen.ref_times(1975, 2060))
    y2 = b1[0] + draw(st.sampled_from([-1, 1])) * draw(st.integers(10, 40))
    m2 = (b1[1] + draw(st.integers(5, 7)) - 1) % 12 + 1
    d2 = b1[2] + draw(st.integers(5, 10))
    if d2 > 28:
        d2 -= 20
    if d2 == b1[2]:
        d2 = d2 % 28 + 1
    b1[6] = 0
    return b1, [y2, m2, d2, (b1[3] + 7) % 24, (b1[4] + 13) % 60, 0, 0]


_names = {}


def lang_names(lang):
    if lang not in _names:
        from checks import c05
        ms, ws = {}, {}
        for key, name in c05.names_for(lang, True, True):
            if any(ch.isdigit() for ch in name):
                # a name that contains a digit (dz/bo 'ཟླ་༡༠', zh '10月') can be read as a number plus a word, so the
                # construction would not say which parts the string states (and such names are C05 findings)
                continue
            if key in data.MONTHS:
                ms.setdefault(data.MONTHS.index(key) + 1, []).append(name)
            else:
                ws.setdefault(data.WEEKDAYS.index(key), []).append(name)
        _names[lang] = (ms, ws)
    return _names[lang]


@st.composite
def cases(draw):
    b1, b2 = draw(two_refs())
    mode = draw(st.sampled_from(MODES))
    parsers = draw(st.sampled_from(PARSER_SETS))
    src = draw(st.sampled_from(["corpus", "generated", "generated", "format", "timestamp"]))
    c = {"b1": b1, "b2": b2, "mode": mode, "parsers": parsers, "src": src}
    if src == "corpus":
        e = draw(st.sampled_from(corpus()))
        lang = e["locale"]
        if lang not in data.language_order():
            lang = lang.rsplit("-", 1)[0]
        c.update(s=e["s"], lang=lang)
    elif src == "timestamp":
        n = draw(st.integers(10 ** 9, 10 ** 10 - 1))
        c.update(s=str(n) + draw(st.sampled_from(["", "000", "123456"])), lang="en", present=PARTS)
    elif src == "format":
        y, m, d = draw(st.integers(1900, 2100)), draw(st.integers(1, 12)), draw(st.integers(1, 28))
        leapday = draw(st.integers(0, 5)) == 0
        if leapday:
            # 29 February: with a year-less format the year comes from the clock, and only some years have that day — the
            # stated day must come back as written or not at all, at a leap and at a non-leap reference year alike
            y, m, d = draw(st.sampled_from([1904, 1996, 2000, 2024, 2096])), 2, 29
            c["b1"][0] = draw(st.sampled_from([1996, 2000, 2024, 2032]))
            c["b2"][0] = draw(st.sampled_from([1999, 2023, 2100 - 74, 2031]))
            c["b1"][2], c["b2"][2] = min(c["b1"][2], 28), min(c["b2"][2], 28)
        elif draw(st.integers(0, 3)) == 0:
            d = gen.mdays(y, m)
        fmt, s, present = draw(st.sampled_from([
            ("%d %B %Y", "%02d %s %d" % (d, MONTHS_EN[m - 1], y), PARTS), ("%B %Y", "%s %d" % (MONTHS_EN[m - 1], y), ["month", "year"]),
            ("%Y", "%d" % y, ["year"]), ("%d/%m", "%02d/%02d" % (d, m), ["day", "month"]), ("%H:%M", "%02d:%02d" % (d % 24, m), []),
            ("%Y-%m-%d %H:%M", "%d-%02d-%02d 10:%02d" % (y, m, d, d), PARTS), ("%d.%m.%y", "%02d.%02d.%02d" % (d, m, y % 100), PARTS),
            ("%b %d", "%s %02d" % (MONTHS_EN[m - 1][:3], d), ["day", "month"])]))
        c.update(s=s, lang="en", formats=[fmt], present=present)
        if leapday:
            c["leapday"] = True
        if parsers is not None and "custom-formats" not in parsers:
            c["parsers"] = ["custom-formats", "absolute-time"]
    elif draw(st.integers(0, 5)) == 0:
        # a day number without a month, over-weighted for days 29-31, with one reference time in a 31-day month and the other in
        # a shorter one: which month the day lands in is the clock's business, so the day the string states must either come
        # back as written at both reference times or not at all
        d = draw(st.sampled_from([29, 30, 31, 31, 30, 28, 15]))
        y = draw(st.integers(1990, 2040))
        body = draw(st.sampled_from(["%d", "%d %d" % (0, 0), "%d, %d 10:30", "%d 10:30", "%dth %d"]))
        body = {"%d": "%d" % d, "0 0": "%d %d" % (d, y), "%d, %d 10:30": "%d, %d 10:30" % (d, y), "%d 10:30": "%d 10:30" % d,
                "%dth %d": "%dth %d" % (d, y)}[body]
        c["b1"][1], c["b1"][2] = draw(st.sampled_from([1, 3, 5, 7, 8, 10, 12])), draw(st.integers(1, 28))
        c["b2"][1], c["b2"][2] = draw(st.sampled_from([2, 4, 6, 9, 11, 2])), draw(st.integers(1, 28))
        if draw(st.booleans()):
            c["mode"] = draw(st.sampled_from([["day"], ["day", "year"], ["day"]]))
        c.update(s=body, lang=draw(st.sampled_from(["en", "en", "fr", "de", "ru", "es"])), present=None, day_alone=True,
                 vals={"day": d, "year": y})
    else:
        langs = data.language_order()
        lang = draw(st.one_of(st.sampled_from(langs[:30]), st.sampled_from(langs)))
        ms, ws = lang_names(lang)
        y, m, d = draw(st.integers(1900, 2100)), draw(st.integers(1, 12)), draw(st.one_of(st.integers(1, 28), st.integers(1, 31)))
        has = {p: draw(st.booleans()) for p in ("day", "month", "year", "weekday", "time")}
        named = draw(st.booleans()) and m in ms
        numeric_ambiguous = False
        day_alone = False
        if has["day"] and not has["month"]:
            if draw(st.integers(0, 2)) == 0:
                # a day number without a month ('31 2015', '30 10:15'): which month it lands in is the clock's business, so
                # nothing is claimed about the parts it states; the filter/clock relations apply as to any other string
                day_alone = True
                has["weekday"] = False
            else:
                has["month"] = True
        if not day_alone:
            d = min(d, gen.mdays(y, m))
        toks = []
        if has["weekday"] and ws:
            wd = dt.date(y, m, d).weekday()
            if wd in ws:
                toks.append(draw(st.sampled_from(ws[wd])))
            else:
                has["weekday"] = False
        else:
            has["weekday"] = False
        zero = draw(st.integers(0, 7)) == 0  # a zero field ('00 March 2015', '00/03/2015') states no day/month at all
        if named:
            if has["day"]:
                toks.append(draw(st.sampled_from(["00", "0"])) if zero else str(d))
            if has["month"]:
                toks.append(draw(st.sampled_from(ms[m])))
            if has["year"]:
                toks.append(str(y))
            body = " ".join(toks)
            if has["day"] and not has["year"]:
                numeric_ambiguous = True  # a bare two-digit number next to a month name is a year in year-first locales
        else:
            order = data.info(lang).get("date_order", "MDY")
            own_order = True
            if draw(st.integers(0, 3)) == 0:
                # the fields in another order than the locale's own (ISO-style year-first strings in a day-first locale, ...):
                # nothing is claimed about how they are read, the filter/clock relations hold all the same
                order = draw(st.sampled_from(["YMD", "YMD", "DMY", "MDY", "YDM"]))
                own_order = False
            f = {"D": ("00" if zero else "%02d" % d) if has["day"] else None, "M": "%02d" % m if has["month"] else None,
                 "Y": "%04d" % y if has["year"] else None}
            nums = [f[ch] for ch in order if f[ch]]
            # the separator is drawn: '.' makes two fields look like a clock time ('15.03'), '-' like a signed number, ' ' like
            # separate tokens — which reading wins is the parser's business, the filter/clock relations hold for all of them
            sep = draw(st.sampled_from(["/", "/", ".", ".", "-", " "]))
            body = " ".join(toks + [sep.join(nums)] if nums else toks)
            if sep != "/":
                c["sep"] = sep
            if not own_order:
                numeric_ambiguous = True
                c["foreign_order"] = True
            if nums and len(nums) == 2 or (len(nums) == 1 and not has["year"]):
                # one or two bare numeric fields can be read as other parts (day vs month by the locale's order,
                # a two-digit field as a year): the construction does not say which parts the string states
                numeric_ambiguous = True
        if has["time"]:
            body = (body + " " if body else "") + "%02d:%02d" % (draw(st.integers(0, 23)), draw(st.integers(0, 59)))
        if not body:
            body = str(y)
            has["year"] = True
        if day_alone:
            numeric_ambiguous = True
            c["day_alone"] = True
        if zero and has["day"]:
            numeric_ambiguous = True  # no claim about which parts a zero field states; the metamorphic relations still apply
            c["zero_field"] = True
        c.update(s=body, lang=lang, present=None if numeric_ambiguous else [p for p in PARTS if has[p]],
                 vals={"day": d, "month": m, "year": y})
    return c


def _corpus_walk(ctx):
    """the whole corpus x all modes (quick: two seeded modes per string).  Enumerated, because index draws into a 3,000-string
    pool by Hypothesis revisit a small part of it over and over."""
    def it(shard, nshards):
        for i, e in enumerate(corpus()):
            if i % nshards != shard:
                continue
            lang = e["locale"] if e["locale"] in data.language_order() else e["locale"].rsplit("-", 1)[0]
            modes = MODES
            if ctx.quick:
                h = derive_seed(ctx.seed, "mode", i)
                modes = [MODES[h % len(MODES)], MODES[(h >> 16) % len(MODES)]]
            for mode in modes:
                yield {"b1": [2014, 9, 1, 10, 30, 0, 0], "b2": [2031, 3, 17, 4, 5, 0, 0], "mode": mode,
                       "parsers": ["timestamp", "custom-formats", "absolute-time"],
                       "src": "corpus", "s": e["s"], "lang": lang}
    return it


def stages(ctx):
    return [Stage("corpus_walk", "enum", cases=_corpus_walk(ctx), exhaustive=not ctx.quick),
            Stage("strictness", "hyp", strategy=cases(), examples=ctx.n(24000, 300000))]
