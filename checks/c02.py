"""C02 — parse is total: a datetime or None, documented exceptions only (DESIGN.md §4 C02)."""
import datetime as dt
import json
import os
import traceback

import pytz
from hypothesis import strategies as st

from vlib import clock, data, tz as vtz
from vlib.runner import VERIF, Stage, derive_seed

ID = "C02"
RULE = ("Hypothesis draws a string of up to 100 characters from a mixture {corpus string, mutated corpus string (delete/insert/"
        "duplicate a character, splice two strings, shuffle tokens, insert a boundary token such as 0000, 9999, 24:00, 23:59:60, "
        "+1400, a 20-digit number, unit words), token soup over numbers/separators/month, weekday, unit and relative words of a "
        "drawn language/timezone names, digit-separator soup, arbitrary Unicode text} x a settings dict over every documented "
        "key with valid values (RELATIVE_BASE biased to within two days of datetime.min/max, naive or aware; only resolvable "
        "timezone names) x a language choice {none, 1-3 languages, one locale, languages + region, use_given_order, "
        "try_previous_locales} x optional date_formats built from distinct strptime directives. An invalid-argument "
        "sub-generator (15%) supplies an unknown setting key, a wrongly typed or valued setting, a repeated list value, an "
        "unknown language/locale, conflicting locales, a non-str date string or non-list languages, paired with an arbitrary "
        "date string. Oracle: parse returns None or a datetime; get_date_data returns DateData with period in {time, day, week, "
        "month, year} and date_obj None => locale None; get_date_tuple agrees; valid arguments raise nothing; invalid arguments "
        "must raise TypeError/ValueError/SettingValidationError whatever the date string is. Failures are bucketed by "
        "(exception type, innermost dateparser frame). Non-trivial = the call produced a date or raised a documented exception "
        "or got past language applicability; distinct on (string class, outcome kind, settings keys, language-argument kind).")
ASSUMPTIONS = ["process TZ=UTC; frozen clock", "autodetection (no language argument) uses a pool of 10 settings dicts per run because each new settings hash costs ~1.3 s there",
               "a failure is reported only if it reproduces in a freshly forked process (history-dependent failures are C03's subject)"]
ESSENTIAL = ["str:corpus", "str:mutated", "str:soup", "str:digits", "str:unicode", "outcome:date", "outcome:none", "invalid-args",
             "base:near-min", "base:near-max", "base:aware", "lang:auto", "lang:locale", "lang:region", "formats"]
CONFIRM_IN_FRESH_CHILD = True

NOW = dt.datetime(2015, 6, 15, 10, 30)
PERIODS = ("time", "day", "week", "month", "year")
_corpus = []


def corpus():
    if not _corpus:
        with open(os.path.join(VERIF, "corpus", "strings.json")) as f:
            _corpus.extend(e["s"] for e in json.load(f))
    return _corpus


def _decode_settings(sd):
    if sd is None:
        return None
    out = {}
    for k, v in sd.items():
        if k == "RELATIVE_BASE" and isinstance(v, dict):
            d = dt.datetime(*v["t"])
            if v.get("tz"):
                z = vtz.oracle_tz(v["tz"])
                d = d.replace(tzinfo=z if not hasattr(z, "localize") else pytz.utc) if v["tz"] == "UTC" else (
                    z.localize(d) if hasattr(z, "localize") else d.replace(tzinfo=z))
            out[k] = d
        else:
            out[k] = v
    return out


def check_case(case):
    import dateparser
    from dateparser.conf import SettingValidationError
    from dateparser.date import DateData, DateDataParser
    s = case["s"]
    if case.get("s_kind") == "int":
        s_arg = 12345
    elif case.get("s_kind") == "bytes":
        s_arg = s.encode("utf-8", "replace")
    elif case.get("s_kind") == "none":
        s_arg = None
    else:
        s_arg = s
    cls = ["str:" + case["sclass"]]
    invalid = case.get("invalid")
    try:
        settings = _decode_settings(case["settings"])
    except (OverflowError, ValueError):
        return {"ok": True, "skip": "aware RELATIVE_BASE not constructible at the range end", "cls": cls}
    kw = dict(case["langkw"])
    if invalid == "languages-not-list":
        kw["languages"] = "en"
    lk = "auto" if not (kw.get("languages") or kw.get("locales")) else "locale" if kw.get("locales") else "region" if kw.get("region") else "langs"
    cls.append("lang:" + lk)
    formats = case.get("formats")
    if formats:
        cls.append("formats")
    if settings and "RELATIVE_BASE" in settings:
        b = settings["RELATIVE_BASE"]
        if isinstance(b, dt.datetime):
            if b.year <= 1:
                cls.append("base:near-min")
            if b.year >= 9999:
                cls.append("base:near-max")
            if b.tzinfo is not None:
                cls.append("base:aware")
    if invalid:
        cls.append("invalid-args")
        cls.append("invalid:" + invalid)
    skeys = tuple(sorted(settings)) if settings else ()
    clock.freeze(NOW)
    outcome = None
    pkw = {k: v for k, v in kw.items() if k in ("languages", "locales", "region")}
    if invalid in SETTINGS_INVALID:
        # an invalid setting must be rejected by EVERY entry point, whatever the date string is
        try:
            for label, fn in (("dateparser.parse", lambda: dateparser.parse(s_arg, date_formats=formats, settings=settings, **pkw)),
                              ("DateDataParser", lambda: DateDataParser(settings=settings, **kw).get_date_data(s_arg, formats))):
                try:
                    got = fn()
                except (TypeError, ValueError):
                    continue
                except Exception as e:
                    return _crash(case, e, cls, skeys, lk)
                return {"ok": False, "bucket": "invalid-accepted:%s:%s" % (invalid, label),
                        "detail": "%s(%r, date_formats=%r, settings=%r, %r) accepted invalid settings (%s) and returned %r"
                                  % (label, s_arg, formats, case["settings"], kw, invalid, got),
                        "key": (case["sclass"], "exc", skeys, lk, invalid), "cls": cls}
        finally:
            clock.freeze(None)
        cls.append("outcome:documented-exception")
        return {"ok": True, "key": (case["sclass"], "exc", skeys, lk, invalid), "cls": cls}
    try:
        try:
            r1 = dateparser.parse(s_arg, date_formats=formats, settings=settings, **pkw)
            p = DateDataParser(settings=settings, **kw)
            dd = p.get_date_data(s_arg, formats)
            tup = p.get_date_tuple(s_arg, formats)
            outcome = "date" if dd.date_obj is not None else "none"
        except (TypeError, ValueError) as e:  # SettingValidationError is a ValueError
            if invalid:
                cls.append("outcome:documented-exception")
                return {"ok": True, "key": (case["sclass"], "exc", skeys, lk, invalid), "cls": cls}
            return _crash(case, e, cls, skeys, lk)
        except Exception as e:
            return _crash(case, e, cls, skeys, lk)
    finally:
        clock.freeze(None)
    cls.append("outcome:" + outcome)
    key = (case["sclass"], outcome, skeys, lk, bool(formats)) if (outcome == "date" or case["sclass"] in ("corpus", "mutated")) else None
    desc = "parse(%r, date_formats=%r, settings=%r, %r)" % (s_arg, formats, case["settings"], kw)
    if invalid in SETTINGS_INVALID:
        return {"ok": False, "bucket": "invalid-accepted:" + invalid, "detail": desc + " accepted invalid arguments (%s) and returned %r"
                % (invalid, dd.date_obj), "key": key, "cls": cls}
    if not (r1 is None or isinstance(r1, dt.datetime)):
        return {"ok": False, "bucket": "type:parse", "detail": desc + " -> %r" % (r1,), "key": key, "cls": cls}
    if not isinstance(dd, DateData) or dd.period not in PERIODS or not (dd.date_obj is None or isinstance(dd.date_obj, dt.datetime)):
        return {"ok": False, "bucket": "shape:date-data", "detail": desc + " -> %r" % (dd,), "key": key, "cls": cls}
    if dd.date_obj is None and dd.locale is not None:
        return {"ok": False, "bucket": "shape:locale-without-date", "detail": desc + " -> %r" % (dd,), "key": key, "cls": cls}
    if (tup.date_obj, tup.period, tup.locale) != (dd.date_obj, dd.period, dd.locale):
        if not kw.get("try_previous_locales"):
            return {"ok": False, "bucket": "tuple-disagrees", "detail": desc + " -> %r vs tuple %r" % (dd, tup), "key": key, "cls": cls}
    if (r1 is None) != (dd.date_obj is None) and not kw.get("use_given_order") and not kw.get("try_previous_locales"):
        return {"ok": False, "bucket": "parse-vs-get_date_data", "detail": desc + " parse -> %r, get_date_data -> %r" % (r1, dd),
                "key": key, "cls": cls}
    return {"ok": True, "key": key, "cls": cls}


def _crash(case, e, cls, skeys, lk):
    tb = traceback.extract_tb(e.__traceback__)
    frames = [f for f in tb if "/dateparser/" in f.filename and "/verif/" not in f.filename]
    f = frames[-1] if frames else tb[-1]
    where = "%s:%s" % (os.path.basename(f.filename), f.name)
    return {"ok": False, "bucket": "raises:%s:%s" % (type(e).__name__, where),
            "detail": "parse(%r, date_formats=%r, settings=%r, %r) raised %s: %s at %s:%d"
                      % (case["s"], case.get("formats"), case["settings"], case["langkw"], type(e).__name__, str(e)[:150],
                         f.filename, f.lineno),
            "key": (case["sclass"], "crash", skeys, lk), "cls": cls + ["outcome:crash"]}


# ---------------------------------------------------------------------------------------------------
BOUNDARY = ["0000", "0001", "9999", "99999", "31", "29", "00:00", "24:00", "23:59:60", "12 am", "12 pm", "+1400", "-1200", "UTC+14",
            "Z", "12345678901234567890", "in", "ago", "T", "(", ")", "[", "]", "{", "}", "<", ">", "0", "00", "1st", "2nd", "60", "61",
            "1e5", "١٢", "１２", "-", "--", "/", ".", ":", "::", "am", "pm", "a.m.", "noon", "midnight", "week", "decade", "1.5", "1,5",
            "0x10", "\x00", "‏", "́", "year", "month", "now", "Feb 29", "29 feb", "30 february", "31/04", "1969", "68", "69"]
DIRECTIVES = ["%Y", "%y", "%m", "%d", "%B", "%b", "%A", "%a", "%H", "%I", "%p", "%M", "%S", "%f", "%j", "%z", "%Z", "%U", "%W", "%%", "%G", "%u", "%V"]
# %c, %x and %X expand to several of the directives above (a format such as '%Y %c' is not made of distinct directives and
# CPython's own strptime raises re.error for it), so they are only generated on their own
COMPOUND = ["%c", "%x", "%X"]
TZ_NAMES = ["UTC", "America/New_York", "Europe/Paris", "Asia/Kolkata", "Australia/Lord_Howe", "Pacific/Apia", "Pacific/Kiritimati",
            "Etc/GMT+12", "EST", "PST", "IST", "AEST", "+05:30", "-0800", "UTC+3", "GMT-2", "UTC+14:00", "UTC-12:00", "local", "Z", "CET",
            # abbreviations and offsets are matched case-insensitively by the library's own table (not tz database names)
            "pkt", "Pkt", "ist", "Gmt-3", "gmt+5", "utc+05:30", "aest", "Pst", "pdt", "nzdt", "akdt", "utc+3"]
ALL_PARSERS = ["timestamp", "negative-timestamp", "relative-time", "custom-formats", "absolute-time", "no-spaces-time"]

AUTO_POOL = [None, None, None,
             {"RELATIVE_BASE": {"t": [1, 1, 1, 0, 0, 0, 0], "tz": None}, "PREFER_DATES_FROM": "past"},
             {"RELATIVE_BASE": {"t": [9999, 12, 31, 23, 59, 59, 999999], "tz": None}, "PREFER_DATES_FROM": "future", "TIMEZONE": "UTC+14:00"},
             {"RELATIVE_BASE": {"t": [9999, 12, 31, 12, 0, 0, 0], "tz": "UTC"}, "TO_TIMEZONE": "Pacific/Kiritimati", "RETURN_AS_TIMEZONE_AWARE": True},
             {"TIMEZONE": "UTC-12:00", "TO_TIMEZONE": "UTC+14:00", "RETURN_AS_TIMEZONE_AWARE": True, "RELATIVE_BASE": {"t": [1, 1, 1, 10, 0, 0, 0], "tz": None}},
             {"STRICT_PARSING": True, "NORMALIZE": False, "SKIP_TOKENS": []},
             {"PARSERS": ["negative-timestamp", "timestamp", "no-spaces-time", "absolute-time", "relative-time"], "RETURN_TIME_AS_PERIOD": True,
              "PREFER_DAY_OF_MONTH": "last", "PREFER_MONTH_OF_YEAR": "first"},
             {"DATE_ORDER": "YDM", "PREFER_LOCALE_DATE_ORDER": False, "REQUIRE_PARTS": ["year"], "DEFAULT_LANGUAGES": ["fr"], "CACHE_SIZE_LIMIT": 2}]

small_words = st.sampled_from(["on", "at", "the", "of", "de", "le", "в", "г.", "a", "t", "am", "u"])


DST_ZONES = ["America/New_York", "Europe/Paris", "Australia/Lord_Howe", "America/Sao_Paulo", "Asia/Tehran", "Pacific/Apia", "Europe/London"]


@st.composite
def dst_adjacent(draw):
    """a reference time within a day of a DST transition of a zone, and that zone"""
    import pytz
    z = draw(st.sampled_from(DST_ZONES))
    tt = [t for t in getattr(pytz.timezone(z), "_utc_transition_times", []) if 1971 <= t.year <= 2036]
    t = draw(st.sampled_from(tt)) + dt.timedelta(hours=draw(st.integers(-30, 30)), minutes=draw(st.sampled_from([0, 30])))
    return [t.year, t.month, t.day, t.hour, t.minute, 0, 0], z


@st.composite
def near_end_datetimes(draw):
    k = draw(st.integers(0, 5))
    if k == 0:
        t = [1, 1, draw(st.integers(1, 2)), draw(st.integers(0, 23)), draw(st.integers(0, 59)), draw(st.integers(0, 59)), draw(st.sampled_from([0, 1, 999999]))]
    elif k == 1:
        t = [9999, 12, draw(st.integers(30, 31)), draw(st.integers(0, 23)), draw(st.integers(0, 59)), draw(st.integers(0, 59)), draw(st.sampled_from([0, 999999]))]
    elif k == 2:
        t = [draw(st.sampled_from([1, 2, 99, 100, 999, 1000, 9998, 9999])), draw(st.integers(1, 12)), draw(st.integers(1, 28)), draw(st.integers(0, 23)), draw(st.integers(0, 59)), 0, 0]
    else:
        from vlib import gen
        t = draw(gen.ref_times(1900, 2100))
    tzname = draw(st.sampled_from([None, None, None, "UTC", "America/New_York", "Asia/Kolkata", "+05:30", "Pacific/Kiritimati", "UTC-12:00"]))
    return {"t": t, "tz": tzname}


@st.composite
def settings_dicts(draw, autodetect=False):
    if autodetect:
        # fixed pool of settings dicts (each new settings hash costs ~1.3 s under autodetection)
        return draw(st.sampled_from(AUTO_POOL))
    n = draw(st.sampled_from([0, 0, 1, 1, 2, 3, 5, 8]))
    if n == 0:
        return None
    keys = draw(st.lists(st.sampled_from(["DATE_ORDER", "PREFER_LOCALE_DATE_ORDER", "TIMEZONE", "TO_TIMEZONE", "RETURN_AS_TIMEZONE_AWARE",
                                          "PREFER_MONTH_OF_YEAR", "PREFER_DAY_OF_MONTH", "PREFER_DATES_FROM", "RELATIVE_BASE", "RELATIVE_BASE",
                                          "STRICT_PARSING", "REQUIRE_PARTS", "SKIP_TOKENS", "NORMALIZE", "RETURN_TIME_AS_PERIOD", "PARSERS",
                                          "DEFAULT_LANGUAGES", "LANGUAGE_DETECTION_CONFIDENCE_THRESHOLD", "CACHE_SIZE_LIMIT", "FUZZY"]),
                         min_size=n, max_size=n, unique=True))
    out = {}
    for k in keys:
        if k == "DATE_ORDER":
            out[k] = draw(st.sampled_from(["DMY", "DYM", "MDY", "MYD", "YDM", "YMD"]))
        elif k in ("PREFER_LOCALE_DATE_ORDER", "RETURN_AS_TIMEZONE_AWARE", "STRICT_PARSING", "NORMALIZE", "RETURN_TIME_AS_PERIOD", "FUZZY"):
            out[k] = draw(st.booleans())
        elif k in ("TIMEZONE", "TO_TIMEZONE"):
            out[k] = draw(st.sampled_from([z for z in TZ_NAMES if not (k == "TO_TIMEZONE" and z == "local")]))
        elif k in ("PREFER_MONTH_OF_YEAR", "PREFER_DAY_OF_MONTH"):
            out[k] = draw(st.sampled_from(["current", "first", "last"]))
        elif k == "PREFER_DATES_FROM":
            out[k] = draw(st.sampled_from(["current_period", "past", "future"]))
        elif k == "RELATIVE_BASE":
            out[k] = draw(near_end_datetimes())
        elif k == "REQUIRE_PARTS":
            out[k] = draw(st.lists(st.sampled_from(["day", "month", "year"]), max_size=3, unique=True))
        elif k == "SKIP_TOKENS":
            out[k] = draw(st.lists(st.one_of(small_words, st.text(max_size=3)), max_size=3))
        elif k == "PARSERS":
            out[k] = draw(st.lists(st.sampled_from(ALL_PARSERS), max_size=6, unique=True))
        elif k == "DEFAULT_LANGUAGES":
            out[k] = draw(st.lists(st.sampled_from(data.language_order()), max_size=2, unique=True))
        elif k == "LANGUAGE_DETECTION_CONFIDENCE_THRESHOLD":
            out[k] = draw(st.sampled_from([0.0, 0.5, 1.0, 0.25]))
        elif k == "CACHE_SIZE_LIMIT":
            out[k] = draw(st.sampled_from([0, 1, 2, 1000, 5]))
    return out


@st.composite
def strings(draw):
    c = corpus()
    k = draw(st.integers(0, 9))
    if k <= 1:
        return draw(st.sampled_from(c)), "corpus"
    if k <= 4:
        s = draw(st.sampled_from(c))
        for _ in range(draw(st.integers(1, 3))):
            m = draw(st.integers(0, 5))
            i = draw(st.integers(0, max(0, len(s))))
            if m == 0 and s:
                s = s[:i] + s[i + 1:]
            elif m == 1:
                s = s[:i] + draw(st.one_of(st.sampled_from(list("0123456789:/-. ,+")), st.characters())) + s[i:]
            elif m == 2 and s:
                j = min(len(s), i + draw(st.integers(1, 4)))
                s = s[:j] + s[i:j] + s[j:]
            elif m == 3:
                o = draw(st.sampled_from(c))
                s = s[:i] + o[draw(st.integers(0, len(o))):]
            elif m == 4:
                toks = s.split(" ")
                toks = draw(st.permutations(toks))
                s = " ".join(toks)
            else:
                s = s[:i] + draw(st.sampled_from([" ", "", "-"])) + draw(st.sampled_from(BOUNDARY)) + draw(st.sampled_from([" ", ""])) + s[i:]
        return s[:100], "mutated"
    if k <= 6:
        lang = draw(st.sampled_from(data.language_order()))
        inf = data.raw_info(lang)
        words = []
        for key in data.MONTHS + data.WEEKDAYS + data.UNITS + ["ago", "in", "am", "pm", "skip"]:
            words.extend(inf.get(key, [])[:3])
        for ws in list(inf.get("relative-type", {}).values())[:12]:
            words.extend(ws[:1])
        words = [w for w in words if w] or ["x"]
        toks = draw(st.lists(st.one_of(st.sampled_from(words), st.sampled_from(BOUNDARY), st.integers(0, 3000).map(str),
                                       st.integers(0, 99999).map(str), st.sampled_from(["EST", "UTC", "+0530", "pst", "Z"])),
                             min_size=1, max_size=7))
        return draw(st.sampled_from([" ", " ", ", ", "-", "/"])).join(toks)[:100], "soup"
    if k <= 7 and draw(st.integers(0, 2)) == 0:
        # a counted relative pattern of a language's vocabulary, instantiated (every number group gets a number)
        lang = draw(st.sampled_from(data.language_order()))
        pats = data.relative_patterns(data.raw_info(lang))
        if pats:
            from checks import c06
            key, pat = draw(st.sampled_from(pats))
            outs = c06.instantiate(pat, str(draw(st.sampled_from([0, 1, 2, 30, 120, 5000]))))
            if outs:
                return draw(st.sampled_from(outs))[:100], "soup"
    if k <= 7:
        if draw(st.booleans()):
            # "residue" strings: once the library has popped the zone / dropped skip words there is little or nothing left
            lang = draw(st.sampled_from(data.language_order()[:40]))
            inf = data.raw_info(lang)
            fill = [w for w in (inf.get("skip", []) + inf.get("pertain", [])) if w.strip()] or ["at"]
            zone = draw(st.sampled_from(["EST", "UTC", "est", "+05:00", "-0800", "UTC+3", "GMT-2", "Z", "MSK", "CET", "(EST)", "IST", "+0000",
                                          "UTC+14:00", "PST", "AEST"]))
            pre = draw(st.lists(st.sampled_from(fill), max_size=2))
            post = draw(st.lists(st.sampled_from(fill + ["am", "pm", ":", "-", "."]), max_size=1))
            return " ".join(pre + [zone] + post)[:100], "soup"
        return draw(st.text(alphabet="0123456789:/-. ,+", min_size=1, max_size=30)), "digits"
    return draw(st.text(max_size=100)), "unicode"


@st.composite
def lang_kwargs(draw):
    order = data.language_order()
    k = draw(st.integers(0, 11))
    if k <= 0:
        return {}
    if k <= 6:
        n = draw(st.integers(1, 3))
        kw = {"languages": draw(st.lists(st.one_of(st.sampled_from(order[:25]), st.sampled_from(order)), min_size=n, max_size=n, unique=True))}
        if draw(st.integers(0, 3)) == 0:
            kw["use_given_order"] = True
        if draw(st.integers(0, 5)) == 0:
            kw["try_previous_locales"] = True
        return kw
    if k <= 8:
        locs = data.all_locales()
        loc, lang = draw(st.sampled_from(locs))
        return {"locales": [loc]}
    n = draw(st.integers(1, 2))
    langs = draw(st.lists(st.sampled_from(order[:40]), min_size=n, max_size=n, unique=True))
    lld = data.language_locale_dict()
    regs = sorted({loc[len(L) + 1:] for L in langs for loc in lld.get(L, [])}) or ["US"]
    return {"languages": langs, "region": draw(st.one_of(st.sampled_from(regs), st.sampled_from(["ZZ", "001", "", "us", "BE"])))}


@st.composite
def format_lists(draw):
    if draw(st.integers(0, 3)) > 0:
        return None
    out = []
    for _ in range(draw(st.integers(1, 2))):
        if draw(st.integers(0, 9)) == 0:
            out.append(draw(st.sampled_from(COMPOUND)))
            continue
        ds = draw(st.lists(st.sampled_from(DIRECTIVES), min_size=1, max_size=5, unique=True))
        sep = draw(st.sampled_from([" ", "-", "/", ":", "", ".", ", "]))
        out.append(sep.join(ds))
    return out


SETTINGS_INVALID = ("unknown-key", "wrong-type", "wrong-value", "repeated-value", "none-value")
INVALID = ["unknown-key", "wrong-type", "wrong-value", "repeated-value", "unknown-language", "unknown-locale", "conflicting-locales",
           "non-str-input", "languages-not-list", "none-value", "use-given-order-without-languages", "bad-formats-type"]


@st.composite
def cases(draw):
    s, sclass = draw(strings())
    langkw = draw(lang_kwargs())
    settings = draw(settings_dicts(autodetect=not (langkw.get("languages") or langkw.get("locales"))))
    c = {"s": s, "sclass": sclass, "settings": settings, "langkw": langkw, "formats": draw(format_lists())}
    special = draw(st.integers(0, 19))
    if special == 2:
        special = 1
    if special == 0:
        # a clock time alone, around a DST transition of the TIMEZONE (ambiguous and skipped local times)
        base, zone = draw(dst_adjacent())
        c["s"] = draw(st.sampled_from(["%02d:%02d" % (h, m) for h in (0, 1, 2, 3, 23) for m in (0, 30, 59)] + ["1:30 am", "2 am", "noon"]))
        c["sclass"] = "digits"
        c["langkw"] = {"languages": ["en"]}
        c["settings"] = {"TIMEZONE": zone, "RELATIVE_BASE": {"t": base, "tz": None},
                         "PREFER_DATES_FROM": draw(st.sampled_from(["past", "future", "current_period"]))}
        if draw(st.booleans()):
            c["settings"]["TO_TIMEZONE"] = draw(st.sampled_from(TZ_NAMES[:12]))
        c["formats"] = None
    elif special == 1:
        # a string that really matches the given format, at the ends of the datetime range, with timezone settings
        from checks import c14
        fmt = draw(st.sampled_from(["%Y-%m-%d", "%d/%m/%Y %H:%M", "%Y%m%d", "%B %d, %Y", "%Y-%m-%d %H:%M:%S.%f", "%Y", "%m/%Y", "%d %b %Y %I:%M %p",
                                    # formats that leave the date (or part of it) to the reference time / the preferences
                                    "%H:%M", "%I:%M %p", "%H:%M:%S", "%d %B", "%m/%d", "%B", "%d", "%j", "%b %d %H:%M", "%y"]))
        t = draw(st.sampled_from([[1, 1, 1, 0, 0, 0, 0], [1, 1, 2, 12, 30, 0, 0], [9999, 12, 31, 23, 59, 59, 999999], [9999, 12, 30, 0, 0, 0, 0],
                                  [100, 3, 1, 1, 1, 1, 0], [2020, 2, 29, 23, 59, 0, 0]]))
        c["s"], c["sclass"], c["formats"] = c14.render(fmt, t), "corpus", [fmt]
        c["langkw"] = {"languages": ["en"]}
        st_ = {}
        if draw(st.booleans()):
            st_["TIMEZONE"] = draw(st.sampled_from(TZ_NAMES))
        if draw(st.booleans()):
            st_["TO_TIMEZONE"] = draw(st.sampled_from([z for z in TZ_NAMES if z != "local"]))
        if draw(st.booleans()):
            st_["RETURN_AS_TIMEZONE_AWARE"] = draw(st.booleans())
        open_date = not ("%Y" in fmt or "%y" in fmt)
        if open_date or draw(st.booleans()):
            # the reference time at the very ends of the range too (whatever completes or shifts the date does so there)
            st_["RELATIVE_BASE"] = {"t": draw(st.sampled_from([[1, 1, 1, 0, 0, 0, 0], [1, 1, 1, 12, 0, 0, 0], [1, 1, 2, 0, 0, 0, 0],
                                                               [9999, 12, 31, 23, 59, 59, 999999], [9999, 12, 31, 12, 0, 0, 0], [9999, 12, 30, 0, 0, 0, 0]])),
                                    "tz": draw(st.sampled_from([None, None, "UTC", "+05:30", "-08:00"]))}
        for k_, vals in (("PREFER_DATES_FROM", ["past", "future", "current_period"]), ("PREFER_DAY_OF_MONTH", ["first", "last", "current"]),
                         ("PREFER_MONTH_OF_YEAR", ["first", "last", "current"])):
            if draw(st.integers(0, 2)) == 0 or (open_date and k_ == "PREFER_DATES_FROM"):
                st_[k_] = draw(st.sampled_from(vals))
        c["settings"] = st_ or None
    if draw(st.integers(0, 99)) < 15:
        inv = draw(st.sampled_from(INVALID))
        c["invalid"] = inv
        # invalid arguments must be rejected whatever the string is: bias to strings that return early
        if draw(st.booleans()):
            c["s"], c["sclass"] = draw(st.sampled_from([("1500000000", "digits"), ("2015-02-03", "corpus"), ("", "unicode"), ("yesterday", "corpus"),
                                                        (" ", "unicode"), ("\t\n", "unicode"), ("\xa0", "unicode"), ("\u3000", "unicode"), ("-", "digits"),
                                                        ("12345678901234567890", "digits"), ("\x00", "unicode")]))
            if draw(st.booleans()):
                c["s"], c["formats"] = "2015-02-03", ["%Y-%m-%d"]
        st_ = dict(settings or {})
        if inv == "unknown-key":
            st_[draw(st.sampled_from(["TIMEZONES", "relative_base", "STRICT", "FOO", "date_order", ""]))] = 1
        elif inv == "wrong-type":
            k, v = draw(st.sampled_from([("DATE_ORDER", 1), ("TIMEZONE", 5), ("RETURN_AS_TIMEZONE_AWARE", "yes"), ("RELATIVE_BASE", "2015-01-01"),
                                         ("STRICT_PARSING", 1), ("REQUIRE_PARTS", "day"), ("SKIP_TOKENS", "t"), ("PARSERS", "timestamp"),
                                         ("DEFAULT_LANGUAGES", "en"), ("LANGUAGE_DETECTION_CONFIDENCE_THRESHOLD", 1), ("CACHE_SIZE_LIMIT", "10"),
                                         ("NORMALIZE", "true"), ("PREFER_LOCALE_DATE_ORDER", 0), ("TO_TIMEZONE", 0), ("RETURN_TIME_AS_PERIOD", "x"),
                                         # wrongly typed values whose text equals that of a valid value used elsewhere in the run
                                         ("STRICT_PARSING", "False"), ("STRICT_PARSING", "True"), ("NORMALIZE", "True"), ("CACHE_SIZE_LIMIT", "1000"),
                                         ("CACHE_SIZE_LIMIT", "2"), ("REQUIRE_PARTS", "['day']"), ("REQUIRE_PARTS", "[]"), ("PREFER_LOCALE_DATE_ORDER", "False"),
                                         ("LANGUAGE_DETECTION_CONFIDENCE_THRESHOLD", "0.5"), ("RETURN_AS_TIMEZONE_AWARE", "True"),
                                         ("SKIP_TOKENS", "[]"), ("PARSERS", "['absolute-time']"), ("DEFAULT_LANGUAGES", "['fr']"), ("FUZZY", "True")]))
            st_[k] = v
        elif inv == "wrong-value":
            k, v = draw(st.sampled_from([("DATE_ORDER", "XYZ"), ("DATE_ORDER", "dmy"), ("PREFER_DAY_OF_MONTH", "middle"), ("PREFER_MONTH_OF_YEAR", "now"),
                                         ("PREFER_DATES_FROM", "present"), ("REQUIRE_PARTS", ["hour"]), ("PARSERS", ["absolute"]),
                                         ("DEFAULT_LANGUAGES", ["xx"]), ("LANGUAGE_DETECTION_CONFIDENCE_THRESHOLD", 1.5),
                                         ("LANGUAGE_DETECTION_CONFIDENCE_THRESHOLD", -0.1)]))
            st_[k] = v
        elif inv == "repeated-value":
            k, v = draw(st.sampled_from([("REQUIRE_PARTS", ["day", "day"]), ("PARSERS", ["timestamp", "timestamp"]), ("DEFAULT_LANGUAGES", ["en", "en"])]))
            st_[k] = v
        elif inv == "none-value":
            st_[draw(st.sampled_from(["TIMEZONE", "DATE_ORDER", "RELATIVE_BASE", "PARSERS"]))] = None
        elif inv == "unknown-language":
            c["langkw"] = {"languages": draw(st.sampled_from([["xx"], ["en", "klingon"], ["EN"], ["en-US"], [""]]))}
        elif inv == "unknown-locale":
            c["langkw"] = {"locales": draw(st.sampled_from([["en-ZZ"], ["xx-US"], ["fr_FR"], ["fr-fr"], [""]]))}
        elif inv == "conflicting-locales":
            c["langkw"] = {"locales": draw(st.sampled_from([["en-US", "en-GB"], ["fr-BE", "fr-CA", "de"], ["pt-BR", "pt-PT"]]))}
        elif inv == "non-str-input":
            c["s_kind"] = draw(st.sampled_from(["int", "bytes", "none"]))
        elif inv == "languages-not-list":
            c["langkw"] = {}
        elif inv == "use-given-order-without-languages":
            c["langkw"] = {"use_given_order": True}
        elif inv == "bad-formats-type":
            c["formats"] = "%Y-%m-%d"
            c["langkw"] = {"languages": ["en"]}
            c["s"], c["sclass"] = "on 2015", "corpus"
        if inv in ("unknown-key", "wrong-type", "wrong-value", "repeated-value", "none-value"):
            c["settings"] = st_
    return c


def _vocabulary_walk(ctx):
    """Totality over the data tables: every counted relative pattern (instantiated), fixed relative phrase and month/weekday
    name of every language goes through parse once with that language selected (a data entry the code cannot digest must
    not make parse raise)."""
    from checks import c06

    def it(shard, nshards):
        for i, lang in enumerate(data.language_order()):
            if i % nshards != shard:
                continue
            inf = data.raw_info(lang)
            seen = set()
            strings_ = []
            for key, pat in data.relative_patterns(inf):
                for n in ("2", "1.5"):
                    for s_ in (c06.instantiate(pat, n) or [])[:2]:
                        strings_.append(s_)
            for ws in inf.get("relative-type", {}).values():
                strings_.extend(ws)
            for key in data.MONTHS + data.WEEKDAYS:
                strings_.extend("12 %s 2014" % w for w in inf.get(key, []))
            for loc_spec in inf.get("locale_specific", {}).values():
                for pats in loc_spec.get("relative-type-regex", {}).values():
                    for pat in pats:
                        strings_.extend((c06.instantiate(pat, "2") or [])[:1])
            for s_ in strings_:
                if s_ in seen or not s_:
                    continue
                seen.add(s_)
                yield {"s": s_[:100], "sclass": "soup", "settings": None, "langkw": {"languages": [lang]}, "formats": None}
    return it


def stages(ctx):
    return [Stage("vocabulary_walk", "enum", cases=_vocabulary_walk(ctx), exhaustive=False),
            Stage("fuzz", "hyp", strategy=cases(), examples=ctx.n(20000, 600000))]


def extra_phase(ctx, known, total):
    """thorough tier: coverage-guided campaign (atheris/libFuzzer over the same strategy and oracle)"""
    from vlib import coverage_stage
    return coverage_stage.run(ctx, known, total, ID, ctx.n(0, 30000))
