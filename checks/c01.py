"""C01 — standard absolute date/time formats round-trip exactly (see DESIGN.md §4 C01)."""
import datetime as dt

from hypothesis import strategies as st

import dateparser
from dateparser.date import DateDataParser
from vlib import gen, tz as vtz
from vlib.runner import Stage

ID = "C01"
RULE = ("Hypothesis draws a datetime (boundary-biased: years 1-99/100-999/ends, month ends, 12 AM/PM, "
        "second 59, microsecond edge values) x one of 18 renderings written by harness code (no strftime) "
        "x {languages=['en'] with one of the 27 PREFER_* triples, autodetect with default settings}; "
        "timestamps: n in [1e9,1e10-1] x suffix {0,3,6 digits} x sign x TIMEZONE pool x optional TO_TIMEZONE. "
        "Oracle: the rendered datetime truncated to the written precision, period 'day'; timestamps: "
        "1970-01-01Z + n s converted with pytz/fixed offsets. Non-trivial = year<1000 or >2100, day>=29, "
        "hour in {0,12}, second 59 or microsecond!=0 (dates); every timestamp case. Distinct key = "
        "(rendering, year class, day class, time class, lang) / (suffix len, sign, tz, to_tz).")
ASSUMPTIONS = ["process TZ is UTC (set by ./check) so TIMEZONE='local' means UTC",
               "pytz is the reference for IANA zone arithmetic",
               "for negative timestamps with a non-zero fractional suffix both readings of 'that instant' are accepted",
               "timestamp cases whose TIMEZONE wall time is ambiguous (DST fold) are skipped when TO_TIMEZONE is set (C12 domain)"]
ESSENTIAL = ["fmt:iso_date", "fmt:rfc2822", "fmt:long_12h", "year<1000", "ts:neg", "ts:suffix6", "lang:auto"]

MONTHS = ["January", "February", "March", "April", "May", "June", "July", "August", "September",
          "October", "November", "December"]
WDAYS = ["Monday", "Tuesday", "Wednesday", "Thursday", "Friday", "Saturday", "Sunday"]


def _y(y):
    return "%04d" % y


def _h12(h):
    return (h % 12 or 12), ("AM" if h < 12 else "PM")


def render(fmt, t):
    """-> (string, expected 7-list)"""
    y, m, d, H, M, S, us = t
    date = "%s-%02d-%02d" % (_y(y), m, d)
    wd = WDAYS[dt.date(y, m, d).weekday()]
    mon = MONTHS[m - 1]
    if fmt == "iso_date":
        return date, [y, m, d, 0, 0, 0, 0]
    if fmt == "iso_sp":
        return "%s %02d:%02d:%02d" % (date, H, M, S), [y, m, d, H, M, S, 0]
    if fmt == "iso_T":
        return "%sT%02d:%02d:%02d" % (date, H, M, S), [y, m, d, H, M, S, 0]
    if fmt == "iso_sp_min":
        return "%s %02d:%02d" % (date, H, M), [y, m, d, H, M, 0, 0]
    if fmt == "iso_T_min":
        return "%sT%02d:%02d" % (date, H, M), [y, m, d, H, M, 0, 0]
    if fmt in ("iso_sp_f6", "iso_T_f6"):
        sep = " " if "sp" in fmt else "T"
        return "%s%s%02d:%02d:%02d.%06d" % (date, sep, H, M, S, us), [y, m, d, H, M, S, us]
    if fmt in ("iso_sp_f3", "iso_T_f3"):
        sep = " " if "sp" in fmt else "T"
        ms = us // 1000
        return "%s%s%02d:%02d:%02d.%03d" % (date, sep, H, M, S, ms), [y, m, d, H, M, S, ms * 1000]
    if fmt in ("iso_sp_f1", "iso_T_f1"):
        sep = " " if "sp" in fmt else "T"
        ds = us // 100000
        return "%s%s%02d:%02d:%02d.%d" % (date, sep, H, M, S, ds), [y, m, d, H, M, S, ds * 100000]
    if fmt == "rfc2822":
        return "%s, %02d %s %s %02d:%02d:%02d" % (wd[:3], d, mon[:3], _y(y), H, M, S), [y, m, d, H, M, S, 0]
    if fmt == "long_mdy":
        return "%s %d, %s" % (mon, d, _y(y)), [y, m, d, 0, 0, 0, 0]
    if fmt == "long_dmy":
        return "%d %s %s" % (d, mon, _y(y)), [y, m, d, 0, 0, 0, 0]
    if fmt == "abbr_dmy_hm":
        return "%d %s %s %02d:%02d" % (d, mon[:3], _y(y), H, M), [y, m, d, H, M, 0, 0]
    if fmt == "long_wd":
        return "%s, %s %d, %s" % (wd, mon, d, _y(y)), [y, m, d, 0, 0, 0, 0]
    if fmt == "long_12h":
        h, ap = _h12(H)
        return "%s %d, %s %d:%02d %s" % (mon, d, _y(y), h, M, ap), [y, m, d, H, M, 0, 0]
    raise ValueError(fmt)


FMTS = ["iso_date", "iso_sp", "iso_T", "iso_sp_min", "iso_T_min", "iso_sp_f6", "iso_T_f6", "iso_sp_f3",
        "iso_T_f3", "iso_sp_f1", "iso_T_f1", "rfc2822", "long_mdy", "long_dmy", "abbr_dmy_hm", "long_wd",
        "long_12h"]
PREFS_DAY = ["current", "first", "last"]
PREFS_FROM = ["current_period", "past", "future"]

_parsers = {}


def _parser(lang, prefs):
    k = (lang, tuple(prefs) if prefs else None)
    p = _parsers.get(k)
    if p is None:
        settings = None
        if prefs:
            settings = {"PREFER_DAY_OF_MONTH": prefs[0], "PREFER_MONTH_OF_YEAR": prefs[1],
                        "PREFER_DATES_FROM": prefs[2]}
        p = DateDataParser(languages=[lang] if lang else None, settings=settings)
        _parsers[k] = p
    return p


def check_date(case):
    t, fmt, lang, prefs = case["t"], case["fmt"], case["lang"], case["prefs"]
    s, exp = render(fmt, t)
    cls = ["fmt:" + fmt, "lang:" + (lang or "auto")] + gen.day_class(t)
    y, m, d, H, M, S, us = t
    ycls = "y<100" if y < 100 else "y<1000" if y < 1000 else "y>2100" if y > 2100 else "y"
    dcls = "d>=29" if d >= 29 else "d"
    tcls = ("h0" if H == 0 else "h12" if H == 12 else "h") + ("s59" if S == 59 else "") + ("us" if exp[6] else "")
    nontrivial = ycls != "y" or d >= 29 or H in (0, 12) or S == 59 or exp[6] != 0
    key = (fmt, ycls, dcls, tcls, lang) if nontrivial else None
    dd = _parser(lang, prefs).get_date_data(s)
    got = dd.date_obj
    want = dt.datetime(*exp)
    if got != want or got.tzinfo is not None or dd.period != "day":
        return {"ok": False, "bucket": "date:%s:%s:%s" % (fmt, ycls, "none" if got is None else "wrong"),
                "detail": "parse(%r, lang=%s, prefs=%s) -> %r period=%r, expected %r period='day'"
                          % (s, lang, prefs, got, dd.period, want), "key": key, "cls": cls}
    # the top-level function must agree
    if prefs is None and lang is None:
        g2 = dateparser.parse(s)
        if g2 != want:
            return {"ok": False, "bucket": "date-toplevel:%s" % fmt,
                    "detail": "dateparser.parse(%r) -> %r expected %r" % (s, g2, want), "key": key, "cls": cls}
    return {"ok": True, "key": key, "cls": cls}


def check_ts(case):
    n, suf, neg, tzname, to_tz = case["n"], case["suffix"], case["neg"], case["tz"], case["to_tz"]
    s = ("-" if neg else "") + str(n) + suf
    cls = ["ts", "ts:neg" if neg else "ts:pos", "ts:suffix%d" % len(suf), "ts:tz=" + ("local" if tzname is None else "set"),
           "ts:to_tz" if to_tz else "ts:no_to_tz"]
    settings = {}
    if tzname is not None:
        settings["TIMEZONE"] = tzname
    if to_tz:
        settings["TO_TIMEZONE"] = to_tz
    if neg:
        settings["PARSERS"] = ["negative-timestamp", "timestamp", "relative-time", "custom-formats", "absolute-time"]
    z = vtz.oracle_tz(tzname) if tzname is not None else dt.timezone.utc
    us = int((suf + "000000")[:6]) if suf else 0
    epoch = dt.datetime(1970, 1, 1, tzinfo=dt.timezone.utc)
    cands = []
    secs = -n if neg else n
    inst = epoch + dt.timedelta(seconds=secs)
    readings = [dt.timedelta(microseconds=us)]
    if neg and us:
        readings.append(dt.timedelta(microseconds=-us))
    for frac in readings:
        local = (inst + frac).astimezone(z).replace(tzinfo=None)
        if to_tz:
            if not vtz.is_unambiguous(z, local):
                return {"ok": True, "skip": "ts wall time ambiguous in TIMEZONE with TO_TIMEZONE", "cls": cls}
            local = (inst + frac).astimezone(vtz.oracle_tz(to_tz)).replace(tzinfo=None)
        cands.append(local)
    key = (len(suf), neg, tzname, to_tz)
    dd = DateDataParser(languages=["en"], settings=settings or None).get_date_data(s)
    got = dd.date_obj
    if got not in cands or got.tzinfo is not None or dd.period != "day":
        return {"ok": False, "bucket": "ts:%s:suffix%d:%s" % ("neg" if neg else "pos", len(suf),
                                                            "none" if got is None else "wrong"),
                "detail": "parse(%r, settings=%r) -> %r period=%r, expected one of %r"
                          % (s, settings, got, dd.period, cands), "key": key, "cls": cls}
    return {"ok": True, "key": key, "cls": cls}


def check_case(case):
    return check_ts(case) if case.get("kind") == "ts" else check_date(case)


@st.composite
def date_cases(draw):
    t = draw(gen.datetimes(1, 9999))
    fmt = draw(st.sampled_from(FMTS))
    if draw(st.integers(0, 3)) == 0:
        lang, prefs = None, None
    else:
        lang = "en"
        prefs = draw(st.one_of(st.none(), st.tuples(st.sampled_from(PREFS_DAY), st.sampled_from(PREFS_DAY),
                                                    st.sampled_from(PREFS_FROM)).map(list)))
    return {"kind": "date", "t": t, "fmt": fmt, "lang": lang, "prefs": prefs}


@st.composite
def _lookalike_epochs(draw):
    """10-digit epoch numbers whose digits also spell something else: YYYYMMDDHH, DDMMYYYYHH / MMDDYYYYHH, YYMMDDHHMM, repeated or
    round digits.  They are epoch numbers all the same (the property's domain is every n in [10^9, 10^10))."""
    k = draw(st.integers(0, 4))
    y, m, d, h = draw(st.integers(1900, 2099)), draw(st.integers(1, 12)), draw(st.integers(1, 28)), draw(st.integers(0, 23))
    if k == 0:
        t = "%04d%02d%02d%02d" % (y, m, d, h)
    elif k == 1:
        t = "%02d%02d%04d%02d" % (d, m, y, h) if d >= 10 else "%02d%02d%04d%02d" % (m + 10 if m < 10 else m, d, y, h)
    elif k == 2:
        t = "%02d%02d%02d%02d%02d" % (max(10, y % 100), m, d, h, draw(st.integers(0, 59)))
    elif k == 3:
        t = draw(st.sampled_from(["1111111111", "1234567890", "2000000000", "1900010100", "2099123123", "2030010112", "1999123100",
                                  "2020202020", "1212121212", "3000000000", "9999999999", "1000000001"]))
    else:
        t = "%04d%02d%02d%02d" % (draw(st.sampled_from([1970, 1999, 2000, 2024, 2038, 2099])), m, d, h)
    n = int(t)
    return n if 10 ** 9 <= n < 10 ** 10 else 10 ** 9 + n % (9 * 10 ** 9)


@st.composite
def ts_cases(draw):
    n = draw(st.one_of(st.integers(10 ** 9, 10 ** 10 - 1), st.integers(10 ** 9, 2 * 10 ** 9),
                       st.sampled_from([10 ** 9, 10 ** 10 - 1, 2 ** 31 - 1, 2 ** 31, 2 ** 32 - 1, 2 ** 32]),
                       _lookalike_epochs()))
    k = draw(st.sampled_from([0, 3, 6]))
    suf = ""
    if k:
        suf = draw(st.one_of(st.sampled_from(["0" * k, "9" * k, "0" * (k - 1) + "1", "1" + "0" * (k - 1)]),
                             st.integers(0, 10 ** k - 1).map(lambda v, k=k: str(v).zfill(k))))
    neg = draw(st.booleans())
    # tz database names without a slash that the library's abbreviation table does not list: TIMEZONE asks the tz database
    # first, so they mean the database zone (with its DST rules); they are not used for TO_TIMEZONE, which asks the
    # abbreviation table first and finds 'EDT' inside 'EST5EDT'
    tzname = draw(st.one_of(st.none(), st.sampled_from(vtz.TZ_POOL_SMALL), st.sampled_from(_common()),
                            st.sampled_from(["EST5EDT", "CST6CDT", "MST7MDT", "PST8PDT", "Japan", "Singapore", "Israel", "Turkey", "Egypt",
                                             "Cuba", "Poland", "Portugal", "Iran", "Navajo", "NZ", "ROK", "PRC", "W-SU"])))
    to_tz = draw(st.one_of(st.none(), st.none(), st.sampled_from(vtz.TZ_POOL_SMALL)))
    return {"kind": "ts", "n": n, "suffix": suf, "neg": neg, "tz": tzname, "to_tz": to_tz}


_ctz = []


def _common():
    if not _ctz:
        import pytz
        _ctz.extend(pytz.common_timezones)
    return _ctz


def _all_days(shard, nshards):
    """thorough: every calendar date 0001-01-01..9999-12-31 once; rendering and time of day rotate
    with the ordinal."""
    lo, hi = dt.date(1, 1, 1).toordinal(), dt.date(9999, 12, 31).toordinal()
    for o in range(lo + shard, hi + 1, nshards):
        d = dt.date.fromordinal(o)
        H = (o * 7) % 24
        M = (o * 11) % 60
        S = (o * 13) % 60
        us = (o * 7919) % 1000000
        yield {"kind": "date", "t": [d.year, d.month, d.day, H, M, S, us], "fmt": FMTS[o % len(FMTS)],
               "lang": "en", "prefs": None}


def stages(ctx):
    out = [Stage("dates", "hyp", strategy=date_cases(), examples=ctx.n(60000, 200000)),
           Stage("timestamps", "hyp", strategy=ts_cases(), examples=ctx.n(20000, 100000))]
    if not ctx.quick:
        out.append(Stage("all_days", "enum", cases=_all_days, exhaustive=False))
    return out
