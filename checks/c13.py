"""C13 — language selection is honoured; autodetection is reproducible (DESIGN.md §4 C13)."""
import datetime as dt
import json
import os

from hypothesis import strategies as st

from dateparser.date import DateDataParser
from vlib import clock, data
from vlib.runner import VERIF, Stage, derive_seed

ID = "C13"
RULE = ("Hypothesis draws a corpus string s (with the locale a loose autodetect parse reported) and one of four experiments. "
        "(A) a list of 2-6 languages containing or not containing the detected one, use_given_order on/off, optionally a "
        "DEFAULT_LANGUAGES list: multi(Ls)(s) must equal the first non-None single(L)(s) in the library's priority order (or the "
        "given order), the reported locale must belong to the given set (or to DEFAULT_LANGUAGES when all given ones fail), "
        "and DEFAULT_LANGUAGES must not change a non-None result. (B) autodetect: re-parsing with the reported language gives "
        "the identical (date, period, locale). (C) every regional locale of a drawn language: locales=[loc] and "
        "languages=[lang]+region select the same locale and give identical results, reporting exactly loc; ambiguous numeric "
        "dates follow loc's own order. (D) several languages + one region that is valid for some of them only (loader caches "
        "reset first): the result equals the first non-None result of the per-language locale (lang-REGION when listed, lang "
        "otherwise), and a regional code is never reported for another language's words. (E) entry points: dateparser.parse(s, "
        "languages/locales/region...) equals DateDataParser(same arguments) for languages, locales, languages+region, region "
        "alone; ambiguous numeric dates given with a region follow the order of the first applicable language's locale for that "
        "region (English when no language is given). Non-trivial = at least two given "
        "languages parse s differently or one fails / the locale is regional; distinct on (string, language set, experiment).")
ASSUMPTIONS = ["frozen clock, default settings (one settings hash per DEFAULT_LANGUAGES list)",
               "for a language whose lang-REGION code is not listed, the plain language is what 'selecting the region' can mean (the reported locale is lang-REGION exactly when that code is listed)",
               "experiment D resets LocaleDataLoader's class-level caches before the call so that an earlier clean load cannot mask a misbuilt locale"]
ESSENTIAL = ["regional-own-name", "tz-word-string", "exp:A", "exp:B", "exp:C", "exp:D", "exp:E", "locales-list", "entry:+formats", "entry:+settings", "entry:none", "entry:region", "entry:numeric-anchor", "given-order", "default-languages", "region:partly-invalid", "differs-between-languages"]

NOW = dt.datetime(2015, 6, 15, 10, 30)
_corpus = []


def corpus():
    if not _corpus:
        with open(os.path.join(VERIF, "corpus", "strings.json")) as f:
            _corpus.extend(json.load(f))
    return _corpus


def lang_of(locale):
    return locale if locale in data.language_order() else locale.rsplit("-", 1)[0]


_P = {}


def _parser(**kw):
    k = repr(sorted(kw.items()))
    p = _P.get(k)
    if p is None:
        p = DateDataParser(**kw)
        _P[k] = p
        if len(_P) > 800:
            _P.pop(next(iter(_P)))
    return p


def _res(dd):
    return (dd.date_obj, dd.period, dd.locale)


def _reset_loader():
    from dateparser.languages.loader import LocaleDataLoader
    LocaleDataLoader._loaded_locales.clear()
    LocaleDataLoader._loaded_languages.clear()
    _P.clear()


def check_case(case):
    exp, s = case["exp"], case["s"]
    cls = ["exp:" + exp]
    clock.freeze(NOW)
    try:
        return _check(case, exp, s, cls)
    finally:
        clock.freeze(None)


def _check(case, exp, s, cls):
    order = data.language_order()

    def fail(bucket, what, key):
        return {"ok": False, "bucket": "%s:%s" % (exp, bucket), "detail": "%r %s: %s" % (s, {k: v for k, v in case.items() if k not in ("s", "exp")}, what),
                "key": key, "cls": cls}

    if exp == "A":
        langs, given, defaults = case["langs"], case["given_order"], case["defaults"]
        if given:
            cls.append("given-order")
        if any(s.endswith(" " + a) or s.endswith(" " + a.lower()) for a, _ in tz_words()):
            cls.append("tz-word-string")
        if defaults:
            cls.append("default-languages")
        as_locales = bool(case.get("as_locales"))
        if as_locales:
            # the same relation for a list of locale codes (one per language; a bare language code is a locale code too): the
            # loader orders them by their languages' priority, or keeps the given order
            cls.append("locales-list")
            singles = {L: _res(_parser(locales=[L]).get_date_data(s)) for L in langs}
        else:
            singles = {L: _res(_parser(languages=[L]).get_date_data(s)) for L in langs}
        if case.get("num"):
            # absolute anchor (not only consistency between calls of this process): a language whose own order is the order the
            # digits were written in must read them as written
            num = case["num"]
            want_abs = dt.datetime(*num["ymd"], *num["hm"])
            for L in langs:
                if not as_locales and data.info(L).get("date_order", "MDY") == num["order"] and singles[L][0] != want_abs:
                    return fail("single-language-reading", "languages=[%r] (order %s) reads %r as %r, expected %r"
                                % (L, num["order"], s, singles[L][0], want_abs), (s, tuple(langs), "num"))
        seq = langs if given else sorted(langs, key=lambda L: order.index(lang_of(L)))
        want = next((singles[L] for L in seq if singles[L][0] is not None), None)
        kw = {"locales": langs} if as_locales else {"languages": langs}
        if given:
            kw["use_given_order"] = True
        multi = _res(_parser(**kw).get_date_data(s))
        distinct_results = {singles[L][:2] for L in langs}
        if len(distinct_results) > 1:
            cls.append("differs-between-languages")
        key = (s, tuple(langs), given, tuple(defaults or ())) if len(distinct_results) > 1 else None
        if want is None:
            if multi[0] is not None:
                return fail("multi-parses-what-no-single-does", "multi=%r singles=%r" % (multi, singles), key)
        elif multi != want:
            return fail("not-first-successful-single", "multi=%r expected %r (singles in order %r: %r)" % (multi, want, seq, [singles[L] for L in seq]), key)
        if multi[0] is not None and (multi[2] is None or multi[2] not in langs):
            return fail("locale-not-in-given-set", "multi=%r" % (multi,), key)
        if defaults:
            kw2 = dict(kw, settings={"DEFAULT_LANGUAGES": defaults})
            withdef = _res(_parser(**kw2).get_date_data(s))
            if multi[0] is not None and withdef != multi:
                return fail("defaults-change-result", "without defaults %r, with %r" % (multi, withdef), key)
            if multi[0] is None and withdef[0] is not None and withdef[2] not in defaults and withdef[2] not in langs:
                return fail("locale-not-in-defaults", "with defaults %r" % (withdef,), key)
            if withdef[0] is not None and withdef[2] is None:
                return fail("locale-none", "with defaults %r" % (withdef,), key)
            if multi[0] is None and not as_locales:
                # the selected languages all fail: the answer is the first default language whose single-language parse succeeds
                # (in the list's order or in the library's priority order — the property does not say which; both are accepted),
                # whether the selected languages merely did not recognise the words or recognised them and could not parse
                dsingles = [_res(_parser(languages=[L]).get_date_data(s)) for L in defaults]
                ok_ones = [r for r in dsingles if r[0] is not None]
                if ok_ones:
                    cls.append("fallback-needed")
                    # Only "some answer" is demanded.  The library tries default languages *without* the applicability test it
                    # applies to selected languages (upstream's design: defaults are forced), so with defaults ['fr', 'en'] the
                    # string '10 December' is answered by fr although languages=['fr'] alone refuses it; demanding the result of
                    # the first successful *single-language* parse here raised alarms on the unchanged tree and was withdrawn.
                    if withdef[0] is None:
                        return fail("fallback-none", "selected %r all fail, defaults %r singles %r, with defaults -> %r"
                                    % (langs, defaults, dsingles, withdef), (s, tuple(langs), tuple(defaults), "fb"))
                    if withdef not in ok_ones:
                        cls.append("fallback-answer-differs-from-default-singles")
        return {"ok": True, "key": key, "cls": cls}

    if exp == "B":
        a = _res(_parser().get_date_data(s))
        if a[0] is None:
            return {"ok": True, "skip": "autodetect does not parse the string", "cls": cls}
        if a[2] is None:
            return fail("locale-none", "autodetect=%r" % (a,), (s, "B"))
        again = _res(_parser(languages=[lang_of(a[2])]).get_date_data(s))
        key = (s, "B")
        if again != a:
            return fail("autodetect-not-reproducible", "autodetect=%r, with languages=[%r] -> %r" % (a, lang_of(a[2]), again), key)
        top = None
        import dateparser
        top = dateparser.parse(s)
        if top != a[0]:
            return fail("toplevel-differs", "dateparser.parse -> %r, DateDataParser -> %r" % (top, a), key)
        return {"ok": True, "key": key, "cls": cls}

    if exp == "C":
        loc = case["locale"]
        lang = lang_of(loc)
        region = loc[len(lang) + 1:]
        cls.append("regional")
        if case.get("own_name"):
            # a month name that only this regional locale lists: the base language is used first (per-language caches are
            # shared), then the locale must still understand its own name
            key_, name_ = case["own_name"]
            base_names = data.raw_info(lang).get(key_, [])
            if base_names:
                _parser(languages=[lang]).get_date_data("12 %s 2020" % base_names[0])
            own = _res(_parser(locales=[loc]).get_date_data(s))
            want_own = dt.datetime(2020, data.MONTHS.index(key_) + 1, 12)
            cls.append("regional-own-name")
            if own[0] != want_own or own[2] != loc:
                return fail("regional-own-name", "locales=[%r] on %r (its own name for %s, after the base language was used) -> %r, expected %r"
                            % (loc, s, key_, own, want_own), (s, loc, "C-own"))
        by_locale = _res(_parser(locales=[loc]).get_date_data(s))
        by_region = _res(_parser(languages=[lang], region=region).get_date_data(s))
        key = (s, loc, "C")
        if by_locale != by_region:
            return fail("locale-vs-region", "locales=[%r] -> %r, languages=[%r], region=%r -> %r" % (loc, by_locale, lang, region, by_region), key)
        if by_locale[0] is not None and by_locale[2] != loc:
            return fail("reported-locale", "locales=[%r] reports %r" % (loc, by_locale[2]), key)
        # conventions: an ambiguous numeric date follows the locale's own order
        lo = data.info(loc).get("date_order", "MDY")
        num = "02-03-2016"
        r = _parser(locales=[loc]).get_date_data(num).date_obj
        if lo in ("DMY", "MDY"):
            want = dt.datetime(2016, 3, 2) if lo == "DMY" else dt.datetime(2016, 2, 3)
            if r != want:
                return fail("locale-order", "%r with locales=[%r] (order %s) -> %r" % (num, loc, lo, r), key)
        return {"ok": True, "key": key, "cls": cls}

    if exp == "D":
        langs, region = case["langs"], case["region"]
        lld = data.language_locale_dict()
        eff = []
        for L in langs:
            code = "%s-%s" % (L, region)
            eff.append(code if code in lld.get(L, []) else L)
        valid = [e for e, L in zip(eff, langs) if e != L]
        if valid and len(valid) < len(langs):
            cls.append("region:partly-invalid")
        elif not valid:
            cls.append("region:invalid-for-all")
        else:
            cls.append("region:valid-for-all")
        _reset_loader()
        multi = _res(DateDataParser(languages=langs, region=region).get_date_data(s))
        _reset_loader()
        singles = {}
        for e in eff:
            if e in data.language_order():
                singles[e] = _res(DateDataParser(languages=[e]).get_date_data(s))
            else:
                singles[e] = _res(DateDataParser(locales=[e]).get_date_data(s))
        seq = sorted(eff, key=lambda e: data.language_order().index(lang_of(e)))
        want = next((singles[e] for e in seq if singles[e][0] is not None), None)
        key = (s, tuple(langs), region, "D")
        if want is None:
            if multi[0] is not None:
                return fail("multi-parses-what-no-single-does", "multi=%r singles=%r" % (multi, singles), key)
            return {"ok": True, "key": key, "cls": cls}
        if multi != want:
            return fail("region-misapplied", "languages=%r region=%r -> %r; per-language locales %r give %r, expected %r"
                        % (langs, region, multi, seq, [singles[e] for e in seq], want), key)
        return {"ok": True, "key": key, "cls": cls}
    if exp == "E":
        # the convenience function and the class are two entry points with their own argument handling: both must honour the
        # same selection (languages / locales / languages+region / region alone / nothing)
        import dateparser
        mode = case["mode"]
        cls.append("entry:" + mode)
        kw = {}
        if mode in ("languages", "lang+region"):
            kw["languages"] = case["langs"]
        if mode == "locales":
            kw["locales"] = [case["locale"]]
        if mode in ("lang+region", "region"):
            kw["region"] = case["region"]
        formats, sd = case.get("formats"), case.get("sd")
        ckw = dict(kw)
        if sd:
            # settings ride along to both entry points (a reference time is stored as a list in the case)
            ckw["settings"] = {k: (dt.datetime(*v) if k == "RELATIVE_BASE" else v) for k, v in sd.items()}
            cls.append("entry:+settings")
        if formats:
            cls.append("entry:+formats")
        by_class = _res(DateDataParser(**ckw).get_date_data(s, list(formats) if formats else None)) if sd else \
            _res(_parser(**kw).get_date_data(s, list(formats) if formats else None))
        top = dateparser.parse(s, date_formats=list(formats) if formats else None, **ckw)
        key = (s, mode, tuple(case.get("langs") or ()), case.get("locale"), case.get("region"), tuple(formats or ()),
               tuple(sorted((sd or {}).keys())), "E")
        if top != by_class[0]:
            return fail("toplevel-differs", "dateparser.parse(%r, date_formats=%r, **%r) -> %r, DateDataParser(**%r).get_date_data(s, %r) -> %r"
                        % (s, formats, ckw, top, ckw, formats, by_class), key)
        if formats or sd:
            return {"ok": True, "key": key, "cls": cls}
        if case.get("num") and mode in ("region", "lang+region", "locales"):
            # absolute anchor for an ambiguous numeric date: the first applicable language (English when none is given) with
            # that region decides the order
            num = case["num"]
            if mode == "locales":
                loc = case["locale"]
            else:
                first = sorted(case["langs"], key=order.index)[0] if mode == "lang+region" else "en"
                code = "%s-%s" % (first, case["region"])
                loc = code if code in data.language_locale_dict().get(first, []) else first
            lo = data.info(loc).get("date_order", "MDY")
            if lo in ("DMY", "MDY"):
                a, b, y = num
                want = dt.datetime(y, b, a) if lo == "DMY" else dt.datetime(y, a, b)
                cls.append("entry:numeric-anchor")
                if top != want:
                    return fail("region-order", "dateparser.parse(%r, **%r) -> %r; %s reads numeric dates %s: expected %r" % (s, kw, top, loc, lo, want), key)
        return {"ok": True, "key": key, "cls": cls}
    raise ValueError(exp)


_owners = []


def _own_names():
    """[(regional locale, month key, name)] for month names listed only by the regional locale (single meaning, not a C05 finding
    class: no digits)"""
    if not _owners:
        from checks import c05
        for loc, lang in data.all_locales():
            if loc == lang:
                continue
            spec = data.raw_info(lang).get("locale_specific", {}).get(loc, {})
            ok = {(k, n) for k, n in c05.names_for(loc, True, True)}
            for key in data.MONTHS:
                for name in spec.get(key, []):
                    if (key, name) in ok and name not in data.raw_info(lang).get(key, []) and not any(ch.isdigit() for ch in name):
                        _owners.append((loc, key, name))
    return _owners


_tzwords = []


def tz_words():
    """[(abbreviation, language)]: timezone abbreviations of the library's table that are also vocabulary words of a language
    (e.g. 'ET' in fr, 'MIT' in de): such a string is applicable to that language as it stands, and to others only once the
    zone has been stripped."""
    if not _tzwords:
        from vlib import tz as vtz
        _, abbrs, conflicts = vtz.source_tables()
        low = {a.lower(): a for a in abbrs if a not in conflicts and a.isascii()}
        for lang in data.language_order():
            voc = data.vocabulary(data.info(lang), True)
            for w in voc:
                if w in low and lang != "en":
                    _tzwords.append((low[w], lang))
    return _tzwords


@st.composite
def cases(draw):
    e = draw(st.sampled_from(corpus()))
    s, detected = e["s"], lang_of(e["locale"])
    order = data.language_order()
    exp = draw(st.sampled_from(["A", "A", "A", "B", "C", "D", "A-tz", "A-num", "E"]))
    c = {"exp": exp, "s": s}
    if exp == "E":
        lld = data.language_locale_dict()
        mode = draw(st.sampled_from(["languages", "locales", "lang+region", "region", "region", "none"]))
        c["mode"] = mode
        if mode == "none" or draw(st.integers(0, 3)) == 0:
            # date_formats and/or settings with (or without) a selection: strings on which they make a difference
            s_, f_, sd_ = draw(st.sampled_from([
                ("03-04-05", ["%y-%m-%d"], None), ("03-04-05", ["%d-%m-%y"], {"DATE_ORDER": "YMD"}), ("02-03-2016", None, {"DATE_ORDER": "DMY"}),
                ("March", None, {"PREFER_DATES_FROM": "future", "RELATIVE_BASE": [2015, 6, 15, 10, 30, 0, 0]}),
                ("yesterday", None, {"RELATIVE_BASE": [2001, 2, 3, 4, 5, 6, 0]}), ("2015|03|04", ["%Y|%m|%d"], None),
                ("12 2015", ["%m %Y"], {"PREFER_DAY_OF_MONTH": "last"}), ("10:00", None, {"TIMEZONE": "UTC+3", "RETURN_AS_TIMEZONE_AWARE": True}),
                ("1500000000", None, {"TO_TIMEZONE": "Asia/Tokyo"}), ("March 2015", None, {"REQUIRE_PARTS": ["day"]}),
                ("27 Haziran 1981 de", None, {"SKIP_TOKENS": ["de"]}), ("Thursday", ["%A"], None)]))
            c["s"], c["formats"], c["sd"] = s_, f_, sd_
            if mode == "none":
                return c
            if mode == "region":
                c["region"] = draw(st.sampled_from(["GB", "AU", "US", "FR", "ZZ"]))
                return c
            L = draw(st.sampled_from(["en", "fr", "tr", "de"]))
            if mode == "locales":
                c["locale"] = draw(st.sampled_from(lld[L]))
            else:
                c["langs"] = [L]
                if mode == "lang+region":
                    c["region"] = draw(st.sampled_from(["GB", "CA", "BE", "ZZ"]))
            return c
        numeric = draw(st.booleans()) or mode == "region"
        if numeric:
            a, b = draw(st.integers(1, 12)), draw(st.integers(1, 12))
            y = draw(st.sampled_from([2016, 1999, 2031]))
            c["s"] = "%02d%s%02d%s%d" % (a, "-/."[a % 3], b, "-/."[a % 3], y)
            if a != b:
                c["num"] = [a, b, y]
        L = draw(st.sampled_from([x for x in ["en", "fr", "es", "pt", "de", "ar", "nl", "it", "ru", "sv", "zh"] if lld.get(x)])) if numeric else detected
        if mode == "locales":
            if not lld.get(L):
                L = "en"
            c["locale"] = draw(st.sampled_from(lld[L]))
        elif mode == "region":
            c["region"] = draw(st.sampled_from(["GB", "AU", "IN", "001", "150", "US", "CA", "ZA", "NZ", "IE", "FR", "DE", "ZZ", "BE", "SG"]))
        else:
            others = draw(st.lists(st.sampled_from(order[:30]), min_size=0, max_size=2, unique=True))
            c["langs"] = [L] + [o for o in others if o != L]
            if mode == "lang+region":
                regions = sorted({loc[len(L) + 1:] for loc in lld.get(L, []) if "-" not in loc[len(L) + 1:]}) or ["US"]
                c["region"] = draw(st.one_of(st.sampled_from(regions), st.sampled_from(["GB", "CA", "ZZ", "001"])))
        return c
    if exp == "A-num":
        # numeric dates that only some date orders can read, for language lists that mix DMY / MDY / YMD languages and 'tl'
        # (which has no order of its own and inherits whatever order is in force)
        a, b = draw(st.integers(13, 28)), draw(st.integers(1, 12))
        y = draw(st.sampled_from([2012, 1999, 2020]))
        sep = draw(st.sampled_from(["/", "-", "."]))
        order_, body = draw(st.sampled_from([("MDY", [b, a, y]), ("DMY", [a, b, y]), ("YDM", [y, a, b]), ("YMD", [y, b, a])]))
        tail = draw(st.sampled_from(["", " 10:30"]))
        s2 = sep.join(("%02d" % v) if v < 100 else str(v) for v in body) + tail
        c["num"] = {"order": order_, "ymd": [y, b, a], "hm": [10, 30] if tail else [0, 0]}
        langs = draw(st.lists(st.sampled_from(["en", "de", "fr", "tl", "ja", "hu", "zh", "es", "ru", "ko", "tl", "sv"]), min_size=2, max_size=3, unique=True))
        c.update(exp="A", s=s2, langs=langs, given_order=draw(st.booleans()), defaults=None)
        return c
    if exp == "A-tz":
        # a date followed by a zone abbreviation that is a word of another language
        abbr, wl = draw(st.sampled_from(tz_words()))
        body = draw(st.sampled_from(["12/25/2020 10:00", "25 December 2020 10:00", "2020-12-25 10:00", "25.12.2020 10:00", "10:00",
                                     "December 25, 2020 5 PM"]))
        others = draw(st.lists(st.sampled_from(["en", "en", "ko", "de", "es", "ru", "fr", "it", "nl", "pl"]), min_size=1, max_size=3, unique=True))
        langs = [wl] + [o for o in others if o != wl]
        if draw(st.booleans()):
            langs = draw(st.permutations(langs))
        c.update(exp="A", s=body + " " + draw(st.sampled_from([abbr, abbr.lower()])), langs=list(langs), given_order=draw(st.booleans()),
                 defaults=None)
        return c
    if exp == "A":
        k = draw(st.integers(2, 6))
        pool = st.one_of(st.sampled_from(order[:25]), st.sampled_from(order))
        langs = draw(st.lists(pool, min_size=k, max_size=k, unique=True))
        if draw(st.booleans()) and detected not in langs:
            langs[draw(st.integers(0, len(langs) - 1))] = detected
        c.update(langs=langs, given_order=draw(st.booleans()),
                 defaults=draw(st.one_of(st.none(), st.lists(st.sampled_from(["en", "fr", "es", "de", "ru", "zh", detected]),
                                                             min_size=1, max_size=2, unique=True))))
        if draw(st.integers(0, 3)) == 0:
            lld = data.language_locale_dict()
            c["langs"] = [draw(st.sampled_from([L] + lld[L])) if lld.get(L) else L for L in langs]
            c["as_locales"] = True
    elif exp == "C":
        lld = data.language_locale_dict()
        cands = [L for L in ([detected] if lld.get(detected) else []) + ["en", "fr", "es", "ar", "pt", "de", "sr-Cyrl", "zh-Hant"] if lld.get(L)]
        L = draw(st.sampled_from(cands))
        if L != detected:
            c["s"] = draw(st.sampled_from(["02-03-2016", "12/11/10", "3 2016", "10.05.1999 10:00"]))
        c["locale"] = draw(st.sampled_from(lld[L]))
        if draw(st.booleans()):
            # regional locales that add month names of their own (fr-CA 'juill', ...)
            owners = _own_names()
            if owners:
                loc2, key2, name2 = draw(st.sampled_from(owners))
                c["locale"], c["own_name"], c["s"] = loc2, [key2, name2], "12 %s 2020" % name2
    elif exp == "D":
        lld = data.language_locale_dict()
        k = draw(st.integers(1, 4))
        langs = draw(st.lists(st.sampled_from(order[:40]), min_size=k, max_size=k, unique=True))
        if draw(st.booleans()) and detected not in langs:
            langs[0] = detected
        regions = sorted({loc[len(L) + 1:] for L in langs for loc in lld.get(L, []) if "-" not in loc[len(L) + 1:]}) or ["US"]
        c.update(langs=langs, region=draw(st.one_of(st.sampled_from(regions), st.sampled_from(["BE", "CA", "CH", "IN", "ZZ", "001", "150"]))))
    return c


def _locale_walk(ctx):
    """thorough: every regional locale of every language x 4 probe strings."""
    def it(shard, nshards):
        i = 0
        for loc, lang in data.all_locales():
            if loc == lang:
                continue
            i += 1
            if i % nshards != shard:
                continue
            for s in ("02-03-2016", "12/11/10 10:00", "3 2016", "10.05.1999"):
                yield {"exp": "C", "s": s, "locale": loc}
    return it


def _corpus_walk(ctx):
    """every corpus string: autodetection reproducible (B) and one seeded language list that contains the string's language (A)
    (thorough: four lists).  Enumerated, because index draws into a 3,000-string pool by Hypothesis revisit a small part of it."""
    def it(shard, nshards):
        order = data.language_order()
        for i, e in enumerate(corpus()):
            if i % nshards != shard:
                continue
            detected = lang_of(e["locale"])
            yield {"exp": "B", "s": e["s"]}
            for j in range(1 if ctx.quick else 4):
                h = derive_seed(ctx.seed, "langs", i, j)
                k = 2 + h % 3
                langs = []
                for t in range(k):
                    L = order[(h >> (8 + 9 * t)) % (25 if t % 2 else len(order))]
                    if L not in langs:
                        langs.append(L)
                if detected in order and detected not in langs:
                    langs[(h >> 4) % len(langs)] = detected
                yield {"exp": "A", "s": e["s"], "langs": langs, "given_order": bool((h >> 40) & 1),
                       "defaults": [["en"], None, None, ["fr", "en"]][(h >> 44) % 4]}
    return it


def _fallback_grid(ctx):
    """Numeric dates whose fields are valid in one field order only ('12/25/2020', '25.12.2020', '2020/25/12', with and without a
    clock time) x selected languages of one order x DEFAULT_LANGUAGES of another: the selected language recognises every token
    of such a string and still cannot parse it, so the answer has to come from the fallback (experiment A's oracle: first
    successful single-language parse over the selected languages, then the default languages)."""
    strings = ["12/25/2020", "25/12/2020", "10/31/1999 14:05", "31.10.1999", "2020/25/12", "2020-12-25", "13-01-2021 08:30", "01-13-2021",
               "25.12.20", "12/25/20 10:00", "02/03/2016", "1999/31/10"]
    selected = [["fr"], ["de"], ["es"], ["ru"], ["en"], ["ja"], ["tl"], ["fr", "de"], ["ja", "zh"], ["en", "tl"], ["hu"], ["sv"]]
    defaults = [["en"], ["fr"], ["ja"], ["en", "fr"], ["de", "en"], ["tl"], None]

    def it(shard, nshards):
        i = 0
        for s_ in strings:
            for langs in selected:
                for d in defaults:
                    i += 1
                    if i % nshards != shard:
                        continue
                    if ctx.quick and derive_seed(ctx.seed, "fb", i) % 3:
                        continue
                    yield {"exp": "A", "s": s_, "langs": list(langs), "given_order": bool(derive_seed(ctx.seed, "fbg", i) % 2), "defaults": d}
    return it


def stages(ctx):
    out = [Stage("corpus_walk", "enum", cases=_corpus_walk(ctx), exhaustive=False),
           Stage("experiments", "hyp", strategy=cases(), examples=ctx.n(7000, 120000)),
           Stage("fallback_grid", "enum", cases=_fallback_grid(ctx), exhaustive=not ctx.quick)]
    if not ctx.quick:
        out.append(Stage("locale_walk", "enum", cases=_locale_walk(ctx), exhaustive=True))
    return out
