"""C09 — PREFER_DATES_FROM selects the past/future occurrence, keeping named parts (DESIGN.md §4 C09)."""
import calendar
import datetime as dt

from hypothesis import strategies as st

from dateparser.date import DateDataParser
from vlib import clock, gen, tz as vtz
from vlib.gen import mdays
from vlib.runner import Stage

ID = "C09"
RULE = ("Hypothesis draws a reference datetime in 1970..2067 (every weekday; first/last two days of months and years and "
        "leap days over-weighted) x PREFER_DATES_FROM in {past, future, current_period} x a form: weekday name (full/abbr), "
        "month name, 'D Month', 'Month D', 'HH:MM' (optionally with a TIMEZONE and the frozen clock as reference), "
        "'MM/DD/YY'. Oracle: named parts preserved; weekday-only and time-only: the exact nearest occurrence "
        "(same weekday moves a full week; current_period in [ref-6, ref] / the reference day); month and day-month: "
        "direction at date level, current_period stays in the reference year (29 February under a non-leap year: leap "
        "result year only); two-digit year: direction + pivot window. Non-trivial = the correct answer lies in another "
        "month or year than the reference, or the same-weekday case, or Feb 29; distinct on (form, preference, boundary class).")
ASSUMPTIONS = ["process TZ=UTC; a naive RELATIVE_BASE is the reference instant as written",
               "PREFER_DAY_OF_MONTH / PREFER_MONTH_OF_YEAR stay at their defaults (their interplay is C08's subject)",
               "with a TIMEZONE setting the time-only form is checked as a validity predicate on instants (direction, within 24 h), "
               "the frozen UTC clock being the reference instant",
               "two-digit-year 02/29 whose century-shifted year is not a leap year has no valid answer and is skipped"]
ESSENTIAL = ["month:ref-day-missing-in-month", "form:weekday", "form:time", "form:month", "form:day_month", "form:yy", "same-weekday", "cross-month", "cross-year",
             "feb29", "pref:past", "pref:future", "pref:current_period"]

MONTHS = ["January", "February", "March", "April", "May", "June", "July", "August", "September", "October",
          "November", "December"]
WDAYS = ["Monday", "Tuesday", "Wednesday", "Thursday", "Friday", "Saturday", "Sunday"]
PREFS = ["past", "future", "current_period"]


_LN = {}


def lang_names(lang):
    """({month: [names]}, {weekday: [names]}) — the single-meaning names (C05's rule) of a language, without the names that are
    recorded C05 findings (a name the library does not understand at all says nothing about PREFER_DATES_FROM)."""
    if lang not in _LN:
        from checks import c05
        from vlib import data
        from vlib.runner import Known
        known = set(Known("C05").known)
        ms, ws = {}, {}
        for key, name in c05.names_for(lang, True, True):
            if any(ch.isdigit() for ch in name) or "%s|%s|%s" % (lang, key, c05._norm_name(name)) in known:
                continue
            if key in data.MONTHS:
                ms.setdefault(data.MONTHS.index(key) + 1, []).append(name)
            else:
                ws.setdefault(data.WEEKDAYS.index(key), []).append(name)
        _LN[lang] = (ms, ws)
    return _LN[lang]


def _fail(bucket, detail, key, cls):
    return {"ok": False, "bucket": bucket, "detail": detail, "key": key, "cls": cls}


def check_case(case):
    ref = gen.to_dt(case["ref"])
    pref = case["pref"]
    form = case["form"]
    settings = {"PREFER_DATES_FROM": pref}
    tzname = case.get("tz")
    use_clock = case.get("via") == "clock" or tzname is not None
    if tzname:
        settings["TIMEZONE"] = tzname
    if use_clock:
        clock.freeze(ref)
    else:
        settings["RELATIVE_BASE"] = ref
        clock.freeze(dt.datetime(2001, 2, 3, 4, 5, 6))
    cls = ["form:" + form, "pref:" + pref]
    refday = dt.datetime(ref.year, ref.month, ref.day)
    lang = case.get("lang") or "en"
    lname = None
    if lang != "en":
        # the same forms written with the names of another language (that language selected): the choice of the occurrence
        # happens after translation and must not depend on the language the name was written in
        ms, ws = lang_names(lang)
        pool = ws.get(case.get("wd")) if form == "weekday" else ms.get(case.get("m"))
        if not pool:
            clock.freeze(None)
            return {"ok": True, "skip": "the language lists no single-meaning name for this month/weekday", "cls": cls}
        lname = pool[case.get("name_idx", 0) % len(pool)]
        cls.append("lang:other")
        if form == "day_month":
            from vlib import data as _data
            if (_data.info(lang).get("date_order") or "MDY")[0] == "Y":
                # in a year-first locale a bare number before a month name is a (two-digit) year: '10 一月' is January 2010
                clock.freeze(None)
                return {"ok": True, "skip": "day + month name in a year-first locale (the number is read as a year)", "cls": cls}

    if form == "weekday":
        wd = case["wd"]
        s = WDAYS[wd] if case["style"] == 0 else WDAYS[wd][:3] if case["style"] == 1 else WDAYS[wd].lower()
        if lname:
            s = lname
        delta = (ref.weekday() - wd) % 7  # days back to the most recent such weekday (0 = today)
        if pref == "past":
            want = refday - dt.timedelta(days=delta or 7)
        elif pref == "future":
            want = refday + dt.timedelta(days=(7 - delta) % 7 or 7)
        else:
            want = refday - dt.timedelta(days=delta)
        if delta == 0:
            cls.append("same-weekday")
    elif form == "time":
        h, mi = case["hm"]
        s = "%02d:%02d" % (h, mi)
        cand = refday.replace(hour=h, minute=mi)
        if tzname is None:
            if pref == "past":
                want = cand if cand <= ref else cand - dt.timedelta(days=1)
            elif pref == "future":
                want = cand if cand >= ref else cand + dt.timedelta(days=1)
            else:
                want = cand
        else:
            want = None
            cls.append("time:tz")
    elif form == "month":
        s = MONTHS[case["m"] - 1] if case["style"] != 1 else MONTHS[case["m"] - 1][:3]
        if lname:
            s = lname
        want = None
        if ref.day > mdays(2001, case["m"]):
            cls.append("month:ref-day-missing-in-month")
    elif form == "day_month":
        m, d = case["m"], case["d"]
        s = ("%d %s" % (d, MONTHS[m - 1])) if case["style"] != 1 else ("%s %d" % (MONTHS[m - 1], d))
        if lname:
            s = "%d %s" % (d, lname)
        want = None
        if (m, d) == (2, 29):
            cls.append("feb29")
    elif form == "yy":
        m, d, yy = case["m"], case["d"], case["yy"]
        s = "%02d/%02d/%02d" % (m, d, yy)
        want = None
        pivot = 1900 + yy if yy >= 69 else 2000 + yy
        if (m, d) == (2, 29):
            cls.append("feb29")
            if not all(calendar.isleap(y) for y in (pivot - 100, pivot, pivot + 100)):
                clock.freeze(None)
                return {"ok": True, "skip": "02/29/YY with a non-leap candidate century", "cls": cls}
    else:
        raise ValueError(form)

    try:
        dd = DateDataParser(languages=[lang], settings=settings).get_date_data(s)
    finally:
        clock.freeze(None)
    got = dd.date_obj
    desc = "%r%s ref=%s pref=%s%s" % (s, "" if lang == "en" else " lang=" + lang, ref, pref, " TIMEZONE=%s" % tzname if tzname else "")
    if lname and form == "day_month" and got is not None and (got.month, got.day) != (case["m"], case["d"]):
        # 'D <name>' is read another way in this language (a number next to a month name is a year in year-first locales):
        # the construction does not say which parts the string names
        return {"ok": True, "skip": "day + month name read differently in this language", "cls": cls}
    if got is None:
        return _fail("%s:none" % form, desc + " -> None", (form, pref, "none"), cls)

    boundary = []
    if want is not None:
        if (want.year, want.month) != (ref.year, ref.month):
            boundary.append("cross-month")
        if want.year != ref.year:
            boundary.append("cross-year")
        cls.extend(boundary)
        nontrivial = bool(boundary) or "same-weekday" in cls
        key = (form, pref, tuple(boundary), "same-weekday" in cls, ref.month, ref.weekday(), ref.day) if nontrivial else None
        if got != want:
            b = "%s-only:%s" % (form, pref)
            if "cross-month" in boundary:
                # the recorded finding is one specific mechanism: the reference month is re-imposed on the correct answer
                # (falling back to December when that day does not exist); any other wrong value is a different violation
                try:
                    predicted = want.replace(month=ref.month)
                except ValueError:
                    predicted = want.replace(month=12)
                b = "%s-only:cross-month" % form if got == predicted else "%s-only:cross-month:unexpected-value" % form
            return _fail(b, desc + " -> %r, expected %r" % (got, want), key, cls)
        return {"ok": True, "key": key, "cls": cls}

    # validity predicates
    problems = []
    if form == "time":  # with TIMEZONE: instants
        z = vtz.oracle_tz(tzname)
        if (got.hour, got.minute, got.second) != (h, mi, 0):
            return _fail("time-only:tz:time-of-day-not-preserved", desc + " -> %r: the clock time written in the string is not the result's" % (got,),
                         (form, pref, tzname, "tod"), cls)
        if any(not vtz.is_unambiguous(z, refday.replace(hour=h, minute=mi) + dt.timedelta(days=k)) for k in (-1, 0, 1)):
            # the clock time is skipped or repeated by a DST change on one of the candidate days: "not after / not before /
            # nearest" has no single reading there; only the time of day (checked above) is asserted
            return {"ok": True, "skip": "clock time ambiguous or non-existent in TIMEZONE around the reference day (time of day checked)",
                    "cls": cls + ["time:dst-gap-or-fold"]}
        try:
            inst = vtz.localize(z, got.replace(tzinfo=None)).astimezone(dt.timezone.utc).replace(tzinfo=None)
        except Exception:
            return {"ok": True, "skip": "result wall time ambiguous/non-existent in TIMEZONE (only the time of day was checked)", "cls": cls + ["time:dst-gap-or-fold"]}
        off = inst - got.replace(tzinfo=None)
        localdate_differs = (ref - off).date() != ref.date()
        if localdate_differs:
            cls.append("time:tz-local-date-differs")
        if pref == "past" and inst > ref:
            problems.append("result instant after the reference")
        if pref == "future" and inst < ref:
            problems.append("result instant before the reference")
        # the nearest occurrence of HH:MM (in TIMEZONE) not after / not before the reference instant, found by trying the
        # neighbouring days (days are 23 or 25 hours long around a DST change, so "within 24 h" would be the wrong test)
        ideal = None
        for k in range(-2, 3):
            wall = refday.replace(hour=h, minute=mi) + dt.timedelta(days=k)
            if not vtz.is_unambiguous(z, wall):
                continue
            i2 = vtz.localize(z, wall).astimezone(dt.timezone.utc).replace(tzinfo=None)
            if pref == "past" and i2 <= ref and (ideal is None or i2 > ideal[0]):
                ideal = (i2, wall)
            if pref == "future" and i2 >= ref and (ideal is None or i2 < ideal[0]):
                ideal = (i2, wall)
        if pref in ("past", "future") and ideal is not None and inst != ideal[0]:
            problems.append("not the nearest occurrence (nearest is %s)" % ideal[1])
        if pref == "current_period" and got.date() != ref.date() and got.date() != (ref - off).date():
            problems.append("not on the reference day")
        key = (form, pref, tzname, localdate_differs)
        if problems:
            if ideal is not None and (ideal[1].year, ideal[1].month) != (ref.year, ref.month):
                b = "time-only:cross-month"
                cls.append("cross-month")
            elif localdate_differs:
                b = "time-only:tz:local-date-differs"
            else:
                b = "time-only:tz:%s" % pref
            return _fail(b, desc + " -> %r: %s" % (got, "; ".join(problems)), key, cls)
        return {"ok": True, "key": key, "cls": cls}

    if got.month != case["m"]:
        problems.append("month not preserved")
    if form in ("day_month", "yy") and got.day != case["d"]:
        problems.append("day not preserved")
    if (got.hour, got.minute, got.second, got.microsecond) != (0, 0, 0, 0):
        problems.append("time of day invented")
    if pref == "past" and got.date() > ref.date():
        problems.append("result after the reference date")
    if pref == "future" and got.date() < ref.date():
        problems.append("result before the reference date")
    if pref == "future" and form == "day_month" and got < ref.replace(tzinfo=None):
        # a day-and-month string names one day per year; read on that very day (later than 00:00) the occurrence that is "not
        # before the reference time" is next year's (month-only strings name a period that contains the reference, and two-digit
        # years fix the year up to the century: those stay on the date-level comparison)
        problems.append("result before the reference time (same calendar day)")
    if form == "yy":
        if got.year % 100 != yy:
            problems.append("two-digit year not preserved")
        if got.year not in (pivot - 100, pivot, pivot + 100):
            problems.append("year outside the pivot window +- one century")
        if pref == "current_period" and got.year != pivot:
            problems.append("current_period changed the century")
        if got.year != ref.year:
            boundary.append("cross-year")
    else:
        feb29_nonleap = form == "day_month" and (case["m"], case["d"]) == (2, 29) and not calendar.isleap(ref.year)
        if feb29_nonleap:
            if not calendar.isleap(got.year):
                problems.append("29 February in a non-leap year")
        elif pref == "current_period" and got.year != ref.year:
            problems.append("current_period left the reference year")
        if got.year != ref.year:
            boundary.append("cross-year")
    if form == "day_month" and (case["m"], case["d"]) == (ref.month, ref.day):
        cls.append("names-the-reference-day")
    cls.extend(boundary)
    nontrivial = bool(boundary) or "feb29" in cls
    key = (form, pref, tuple(boundary), "feb29" in cls, case.get("style"), ref.month, case.get("m")) if nontrivial else None
    if problems:
        return _fail("%s:%s:%s" % (form, pref, problems[0]), desc + " -> %r: %s" % (got, "; ".join(problems)), key, cls)
    return {"ok": True, "key": key, "cls": cls}


@st.composite
def refs(draw):
    return draw(gen.ref_times(1970, 2067))


@st.composite
def cases(draw):
    ref = draw(refs())
    ref[6] = 0
    pref = draw(st.sampled_from(PREFS))
    form = draw(st.sampled_from(["weekday", "weekday", "time", "time", "month", "day_month", "yy"]))
    c = {"ref": ref, "pref": pref, "form": form, "style": draw(st.integers(0, 2)),
         "via": draw(st.sampled_from(["base", "base", "clock"]))}
    if form in ("weekday", "month", "day_month") and draw(st.integers(0, 3)) == 0:
        from vlib import data
        order = data.language_order()
        c["lang"] = draw(st.one_of(st.sampled_from(order[:40]), st.sampled_from(order)))
        c["name_idx"] = draw(st.integers(0, 7))
    if form == "weekday":
        c["wd"] = draw(st.one_of(st.integers(0, 6), st.just(dt.date(*ref[:3]).weekday())))
    elif form == "time":
        c["hm"] = draw(st.one_of(st.tuples(st.integers(0, 23), st.integers(0, 59)).map(list),
                                 st.just([ref[3], ref[4]]), st.sampled_from([[0, 0], [23, 59]])))
        if draw(st.integers(0, 3)) == 0:
            c["tz"] = draw(st.sampled_from(["America/New_York", "Europe/Paris", "Asia/Kolkata", "UTC", "+05:30", "-0800",
                                            "Pacific/Kiritimati", "UTC-12:00", "Asia/Tokyo", "Etc/GMT+5", "Etc/GMT-3", "Etc/GMT+11",
                                            "Etc/GMT-10"]))
            if draw(st.booleans()) and c["tz"] in ("America/New_York", "Europe/Paris"):
                # around a DST transition of that zone: clock times in the skipped or repeated hour
                import pytz
                tt = [t for t in pytz.timezone(c["tz"])._utc_transition_times if 1971 <= t.year <= 2036]
                t = draw(st.sampled_from(tt)) + dt.timedelta(hours=draw(st.integers(-20, 20)))
                c["ref"] = [t.year, t.month, t.day, t.hour, draw(st.sampled_from([0, 30])), 0, 0]
                c["hm"] = [draw(st.sampled_from([0, 1, 2, 3])), draw(st.sampled_from([0, 30, 59]))]
    else:
        m = draw(st.one_of(st.integers(1, 12), st.just(ref[1]), st.just(ref[1] % 12 + 1)))
        if form == "month" and draw(st.integers(0, 3)) == 0:
            # a month name alone while the reference day (29, 30, 31) does not exist in that month
            ref[1] = draw(st.sampled_from([1, 3, 5, 7, 8, 10, 12]))
            ref[2] = draw(st.sampled_from([29, 30, 31]))
            m = draw(st.sampled_from([2, 2, 4, 6, 9, 11]))
        c["m"] = m
        if form != "month":
            if draw(st.integers(0, 9)) == 0:
                c["m"], c["d"] = 2, 29
            else:
                c["d"] = draw(st.one_of(st.integers(1, mdays(2001, m)), st.just(min(ref[2], mdays(2001, m)))))
        if form == "yy":
            c["yy"] = draw(st.one_of(st.integers(0, 99), st.sampled_from([68, 69, 0, 99, ref[0] % 100])))
            if (c["m"], c["d"]) != (2, 29) and c["d"] > 28:
                c["d"] = min(c["d"], 28) if c["m"] == 2 else c["d"]
    return c


def _weekday_grid(ctx):
    """thorough: every day of 1970..2067 x 7 weekdays x 3 preferences."""
    def it(shard, nshards):
        lo, hi = dt.date(1970, 1, 1).toordinal(), dt.date(2067, 12, 31).toordinal()
        for o in range(lo + shard, hi + 1, nshards):
            d = dt.date.fromordinal(o)
            for wd in range(7):
                for pref in PREFS:
                    yield {"ref": [d.year, d.month, d.day, (o * 7) % 24, (o * 11) % 60, 0, 0], "pref": pref,
                           "form": "weekday", "style": 0, "via": "base", "wd": wd}
    return it


def _time_grid(ctx):
    """thorough: all 1440 HH:MM x 400 references x 3 preferences."""
    def it(shard, nshards):
        i = 0
        for k in range(400):
            o = dt.date(1970, 1, 1).toordinal() + (k * 89) % 35794
            d = dt.date.fromordinal(o)
            if k % 4 == 0:
                d = dt.date(d.year, d.month, mdays(d.year, d.month))
            elif k % 4 == 1:
                d = dt.date(d.year, d.month, 1)
            for h in range(24):
                for mi in range(60):
                    i += 1
                    if i % nshards != shard:
                        continue
                    yield {"ref": [d.year, d.month, d.day, (k * 5) % 24, (k * 7) % 60, 0, 0], "pref": PREFS[(h + mi + k) % 3],
                           "form": "time", "style": 0, "via": "base", "hm": [h, mi]}
    return it


def stages(ctx):
    out = [Stage("forms", "hyp", strategy=cases(), examples=ctx.n(80000, 400000))]
    if not ctx.quick:
        out.append(Stage("weekday_grid", "enum", cases=_weekday_grid(ctx), exhaustive=True))
        out.append(Stage("time_grid", "enum", cases=_time_grid(ctx), exhaustive=True))
    return out
