"""C03 — results depend only on the call's arguments, never on call history (DESIGN.md §4 C03).

A history is a generated list of API calls (the whole list shrinks as one value).  It is executed in a
child forked from the worker, which itself never calls dateparser and therefore stays in the state of
a process that has only imported the library.  Every call's outcome in the history is compared with
the outcome of the same call alone in another freshly forked child (memoised per worker: the fresh
outcome is a function of the call only)."""
import copy
import datetime as dt
import os
import pickle
import struct
import subprocess
import sys
import traceback

from hypothesis import strategies as st

from vlib import clock, data
from vlib.runner import REPO, VERIF, HarnessError, Stage, derive_seed

ID = "C03"
RULE = ("Hypothesis draws a history: a list of 2-25 (thorough: up to 50) API calls from {parse, DateDataParser(...) creation "
        "(kept and reused later), get_date_data on a kept instance, search_dates, Jalali/Hijri calendar parsers, failing "
        "calls (invalid settings, unknown language)} with arguments from small pools so that equal calls recur: settings "
        "variants that differ only in SKIP_TOKENS, NORMALIZE, DATE_ORDER, PREFER_LOCALE_DATE_ORDER, DEFAULT_LANGUAGES, PARSERS, "
        "CACHE_SIZE_LIMIT in {1,2,1000}, RELATIVE_BASE, languages + region combinations, and the default (settings=None). Oracle: "
        "after every step, outcome_in_history == outcome of the same call alone in a freshly forked process (value incl. "
        "utcoffset/tzname, or exception type + message); every dict/list passed in is deep-equal to its pre-call copy; six "
        "default-settings probe calls at the end of the history return the fresh values. Thorough additionally validates the "
        "fork model with genuinely new interpreters under PYTHONHASHSEED in {0, 1, 12345, random}. Non-trivial = the checked "
        "call was preceded by a call with a different settings dict or language set, by a failing call, or by a search call; "
        "distinct on (kinds of the preceding calls, checked call kind, settings keys).")
ASSUMPTIONS = ["frozen clock (same instant on both sides)", "a forked child of a process that only imported dateparser stands for a fresh process "
               "(validated against real new interpreters in the thorough tier)",
               "instances are created without try_previous_locales and without a language-detection callback, as the property says"]
ESSENTIAL = ["kind:parse", "kind:new_parser", "kind:use_parser", "kind:search", "kind:calendar", "kind:failing", "preceded:different-settings",
             "preceded:failing", "preceded:search", "len>=10"]

NOW = dt.datetime(2015, 6, 15, 10, 30)

STRINGS = ["02-03-2016", "10/11/12", "12 janvier 2020", "12 enero 2020", "3 März 2015 14:05", "27 Haziran 1981 de", "yesterday", "2 days ago",
           "hier", "in 3 weeks", "March 2015", "2015", "Monday", "14:05", "1500000000", "ika-3 ng Pebrero 2016", "2016-02-03T10:00:00Z",
           "1 января 2020 г.", "12 de enero de 2020", "5 Jan 2015 2 PM EST", "31.12.1999", "1 day ago 2 PM", "le 12 janvier 2020 à 10h30",
           "12 Ocak 2020", "今天", "2020年1月12日", "sept 2015", "01-01-1000", "tomorrow", "noon", "t 12 jan 2020", "in 2 years", "Feb 29",
           "29 February 2019", "02/03/2020 10h15", "31 février 2020", "32.13.2003", "0001-01-01", "9999-12-31 23:59", "13/13/2013", "", "no date here", "Tuesday 4 October 1957"]
TEXTS = ["It was launched on 4 October 1957. We remembered it 2 days ago, yesterday.",
         "Le 12 janvier 2020. Puis hier.", "Treffen am 3. März 2015 um 14:05 Uhr. Gestern.", "yesterday and 10/11/12",
         "Встреча 1 января 2020 г. в 10:00. Вчера.", "今天 2020年1月12日", "on 02-03-2016, in 3 weeks", "nothing to see",
         "12 Ocak 2020 de geldi. dün.", "le 12 février 2020, puis le 3 août 2021", "am 3. März 2015 und später am 5. Jänner 2016"]
LANGS = [None, ["ja"], ["en"], ["fr"], ["es"], ["de"], ["tr"], ["tl"], ["ru"], ["zh"], ["fr", "en"], ["es", "fr"], ["en", "tl"], ["de", "tr", "fr"],
         ["en", "fr"], ["fr", "es"], ["tl", "en"], ["fr", "tr", "de"]]
REGIONS = [None, None, None, "BE", "US", "CA", "ZZ"]
SETTINGS = [None, None, None,
            {}, {"SKIP_TOKENS": ["de"]}, {"SKIP_TOKENS": []}, {"SKIP_TOKENS": ["t"]}, {"NORMALIZE": False}, {"NORMALIZE": True},
            {"DATE_ORDER": "DMY"}, {"DATE_ORDER": "YMD"}, {"PREFER_LOCALE_DATE_ORDER": False}, {"PREFER_LOCALE_DATE_ORDER": True},
            {"DEFAULT_LANGUAGES": ["fr"]}, {"DEFAULT_LANGUAGES": ["tl", "en"]}, {"DEFAULT_LANGUAGES": ["fr", "en"]}, {"DEFAULT_LANGUAGES": ["en", "fr"]},
            {"SKIP_TOKENS": ["de", "t"]}, {"SKIP_TOKENS": ["t", "de"]}, {"PARSERS": ["absolute-time", "relative-time"]}, {"PARSERS": ["absolute-time"]},
            {"PARSERS": ["relative-time", "timestamp"]}, {"CACHE_SIZE_LIMIT": 1}, {"CACHE_SIZE_LIMIT": 2}, {"CACHE_SIZE_LIMIT": 1000},
            {"CACHE_SIZE_LIMIT": 1, "NORMALIZE": False}, {"RELATIVE_BASE": [1957, 10, 4, 0, 0, 0, 0]}, {"RELATIVE_BASE": [2020, 2, 29, 12, 0, 0, 0]},
            {"RELATIVE_BASE": [1, 1, 1, 0, 0, 0, 0], "PREFER_DATES_FROM": "past"}, {"RELATIVE_BASE": [9999, 12, 31, 23, 0, 0, 0], "PREFER_DATES_FROM": "future"},
            {"PREFER_DATES_FROM": "future"}, {"PREFER_DAY_OF_MONTH": "last", "PREFER_MONTH_OF_YEAR": "first"}, {"TIMEZONE": "UTC+3", "TO_TIMEZONE": "EST"},
            {"RETURN_AS_TIMEZONE_AWARE": True}, {"STRICT_PARSING": True}, {"REQUIRE_PARTS": ["year"]}, {"RETURN_TIME_AS_PERIOD": True},
            {"DATE_ORDER": "DMY", "SKIP_TOKENS": ["de"], "CACHE_SIZE_LIMIT": 2}, {"DATE_ORDER": "MDY"}, {"TIMEZONE": "local"},
            {"PREFER_DATES_FROM": "current_period"}]
# settings dicts that spell out default values: equal *effective* settings, different explicit keys (what a caller passed
# explicitly matters, e.g. an explicit DATE_ORDER switches the locale's own order off)
DEFAULT_EQUIV = [{}, {"DATE_ORDER": "MDY"}, {"PREFER_LOCALE_DATE_ORDER": True}, {"NORMALIZE": True}, {"SKIP_TOKENS": ["t"]},
                 {"TIMEZONE": "local"}, {"PREFER_DATES_FROM": "current_period"}, {"STRICT_PARSING": False},
                 {"DATE_ORDER": "MDY", "NORMALIZE": True}, {"RETURN_TIME_AS_PERIOD": False}, {"CACHE_SIZE_LIMIT": 1000}]
BAD_SETTINGS = [{"FOO": 1}, {"DATE_ORDER": "XYZ"}, {"PARSERS": ["x"]}, {"TIMEZONE": 5}, {"REQUIRE_PARTS": ["day", "day"]}, {"TIMEZONE": "Mars/Olympus"},
                # wrongly typed values that print like valid values used elsewhere in the pools (validation must not depend on
                # what was validated before)
                {"STRICT_PARSING": "True"}, {"NORMALIZE": "False"}, {"CACHE_SIZE_LIMIT": "2"}, {"CACHE_SIZE_LIMIT": "1"},
                {"PREFER_LOCALE_DATE_ORDER": "False"}, {"RETURN_AS_TIMEZONE_AWARE": "True"}, {"REQUIRE_PARTS": "['year']"}, {"SKIP_TOKENS": "['de']"}]
FORMATS = [None, None, None, ["%d-%m-%Y"], ["%m/%d/%y"], ["%B %Y"], ["%Y"]]
CAL_STRINGS = ["1394/06/26", "26 شهریور 1394", "جمعه سی ام اسفند ۱۳۸۷", "1390-13-45", "x"]
HIJRI_STRINGS = ["17-01-1437 هـ 08:30 مساءً", "1437/01/17", "30-02-1433", "y"]
PROBES = [
    # first the probes that read the default Settings object as it was left behind ('tl' has no date order of its own, the
    # calendar parsers use the default object directly) — a search call re-initialises it, so that probe comes last
    ("parse", "02-03-2016", None, ["tl"], None, None, None), ("calendar", "hijri", "01-02-1437"),
    ("parse", "02-03-2016", None, ["en"], None, None, {"PREFER_LOCALE_DATE_ORDER": False}),
    ("parse", "02-03-2016", None, None, None, None, None), ("parse", "yesterday", None, ["en"], None, None, None),
    ("parse", "27 Haziran 1981 de", None, ["tr"], None, None, None), ("parse", "12 janvier 2020", None, ["fr", "en"], None, None, None),
    ("parse", "t 12 jan 2020", None, ["en"], None, None, None), ("search", TEXTS[0], ["en"], None, False)]


def _settings(sd):
    if sd is None:
        return None
    out = {}
    for k, v in sd.items():
        out[k] = dt.datetime(*v) if k == "RELATIVE_BASE" else copy.deepcopy(v)
    return out


def _norm(x):
    """Picklable, comparable normal form of a result."""
    if isinstance(x, dt.datetime):
        return ("dt", x.replace(tzinfo=None).isoformat(), None if x.tzinfo is None else (str(x.utcoffset()), x.tzname()))
    if isinstance(x, (list, tuple)):
        return tuple(_norm(i) for i in x)
    if x is None or isinstance(x, (str, int, float, bool)):
        return x
    if hasattr(x, "date_obj") and hasattr(x, "period"):
        return ("DateData", _norm(x.date_obj), x.period, getattr(x, "locale", None))
    return repr(x)


def _call(step, env):
    """Executes one step inside the current process; returns the normalised outcome."""
    import dateparser
    from dateparser.date import DateDataParser
    kind = step[0]
    args_before = None
    try:
        if kind == "parse":
            _, s, formats, langs, locs, region, sd = step
            settings = _settings(sd)
            passed = (copy.deepcopy(formats), copy.deepcopy(langs), copy.deepcopy(locs), copy.deepcopy(settings))
            live = (copy.deepcopy(formats), copy.deepcopy(langs), copy.deepcopy(locs), settings)
            r = dateparser.parse(s, date_formats=live[0], languages=live[1], locales=live[2], region=region, settings=live[3])
            if live != passed:
                return ("MUTATED-ARGS", repr(live), repr(passed))
            return ("ok", _norm(r))
        if kind == "new_parser":
            _, pid, langs, locs, region, given, sd = step
            settings = _settings(sd)
            passed = (copy.deepcopy(langs), copy.deepcopy(locs), copy.deepcopy(settings))
            live = (copy.deepcopy(langs), copy.deepcopy(locs), settings)
            p = DateDataParser(languages=live[0], locales=live[1], region=region, use_given_order=given, settings=live[2])
            env["parsers"][pid] = p
            if live != passed:
                return ("MUTATED-ARGS", repr(live), repr(passed))
            return ("ok", "created")
        if kind == "use_parser":
            _, pid, s, formats = step
            p = env["parsers"].get(pid)
            if p is None:
                return ("ok", "no-such-parser")
            f2 = copy.deepcopy(formats)
            r = p.get_date_data(s, f2)
            if f2 != formats:
                return ("MUTATED-ARGS", repr(f2), repr(formats))
            return ("ok", _norm(r))
        if kind == "search":
            from dateparser.search import search_dates
            _, text, langs, sd, add = step
            settings = _settings(sd)
            passed = (copy.deepcopy(langs), copy.deepcopy(settings))
            live = (copy.deepcopy(langs), settings)
            r = search_dates(text, languages=live[0], settings=live[1], add_detected_language=add)
            if live != passed:
                return ("MUTATED-ARGS", repr(live), repr(passed))
            return ("ok", _norm(r))
        if kind == "calendar":
            _, which, s = step
            if which == "jalali":
                from dateparser.calendars.jalali import JalaliCalendar as C
            else:
                from dateparser.calendars.hijri import HijriCalendar as C
            r = C(s).get_date()
            return ("ok", _norm(r))
        raise HarnessError("unknown step %r" % (step,))
    except HarnessError:
        raise
    except Exception as e:
        # where = the innermost library function the exception came out of (part of the outcome: the same exception type raised
        # by another mechanism is another outcome)
        where = ""
        root = os.path.realpath(REPO) + os.sep
        for fr in traceback.extract_tb(e.__traceback__):
            if os.path.realpath(fr.filename).startswith(root):
                where = fr.name
        return ("exc", type(e).__name__, str(e)[:200], where)


def _run_in_child(fn):
    """fork; run fn() in the child; return its pickled result (or a crash marker)."""
    r, w = os.pipe()
    pid = os.fork()
    if pid == 0:
        try:
            os.close(r)
            try:
                out = ("ok", fn())
            except BaseException:
                out = ("error", traceback.format_exc())
            data_ = pickle.dumps(out)
            with os.fdopen(w, "wb") as f:
                f.write(data_)
        finally:
            os._exit(0)
    os.close(w)
    with os.fdopen(r, "rb") as f:
        buf = f.read()
    os.waitpid(pid, 0)
    if not buf:
        raise HarnessError("child died without a result")
    tag, val = pickle.loads(buf)
    if tag == "error":
        raise HarnessError("child crashed:\n" + val)
    return val


def _materialise(history):
    """use_parser steps refer to the parser created by the latest new_parser with that id; returns for every step
    the standalone program (list of steps) whose last outcome is the fresh-process reference."""
    progs = []
    created = {}
    for step in history:
        step = tuple(_tuplify(x) for x in step)
        if step[0] == "new_parser":
            created[step[1]] = step
            progs.append([step])
        elif step[0] == "use_parser":
            c = created.get(step[1])
            progs.append([c, step] if c else [step])
        else:
            progs.append([step])
    return progs


def _tuplify(x):
    if isinstance(x, list):
        return tuple(_tuplify(i) for i in x)
    if isinstance(x, dict):
        return tuple(sorted((k, _tuplify(v)) for k, v in x.items()))
    return x


def _untuple_step(step):
    """tuple form -> executable form (lists and dicts restored)"""
    def lst(x):
        return None if x is None else [i for i in x]

    def dct(x):
        if x is None:
            return None
        return {k: (list(v) if isinstance(v, tuple) else v) for k, v in x}
    k = step[0]
    if k == "parse":
        return ("parse", step[1], lst(step[2]), lst(step[3]), lst(step[4]), step[5], dct(step[6]))
    if k == "new_parser":
        return ("new_parser", step[1], lst(step[2]), lst(step[3]), step[4], step[5], dct(step[6]))
    if k == "use_parser":
        return ("use_parser", step[1], step[2], lst(step[3]))
    if k == "search":
        return ("search", step[1], lst(step[2]), dct(step[3]), step[4])
    return step


_fresh = {}


def fresh_outcome(prog):
    key = tuple(prog)
    if key not in _fresh:
        def fn():
            clock.freeze(NOW)
            env = {"parsers": {}}
            out = None
            for stp in prog:
                out = _call(_untuple_step(stp), env)
            return out
        _fresh[key] = _run_in_child(fn)
        if len(_fresh) > 20000:
            _fresh.pop(next(iter(_fresh)))
    return _fresh[key]


_warm = [False]


def check_warm(case):
    """Same check, but the worker first makes one default-settings autodetect call (which loads all 205 locales and builds
    the default-settings regexes), so that every forked child starts warm and a history costs ~0.3 s instead of ~2 s.
    Both sides of the comparison fork from the same warmed state; the cold stages keep first-call effects covered."""
    if not _warm[0]:
        import dateparser
        clock.freeze(NOW)
        dateparser.parse("12 janvier 2020")
        dateparser.parse("yesterday", languages=["en"])
        clock.freeze(None)
        _warm[0] = True
        _fresh.clear()
    return check_case(case)


def check_case(case):
    history = case["history"]
    progs = _materialise(history)
    steps = [p[-1] for p in progs]
    probes = [tuple(_tuplify(x) for x in p) for p in PROBES]

    def run_history():
        clock.freeze(NOW)
        env = {"parsers": {}}
        outs = [_call(_untuple_step(s), env) for s in steps]
        pouts = [_call(_untuple_step(p), env) for p in probes]
        return outs, pouts
    outs, pouts = _run_in_child(run_history)
    kinds = [s[0] for s in steps]
    cls = ["kind:" + k for k in set(kinds)]
    if len(steps) >= 10:
        cls.append("len>=10")

    def sig(step):
        k = step[0]
        if k == "parse":
            return (step[3], step[4], step[5], step[6])
        if k == "new_parser":
            return (step[2], step[3], step[4], step[6])
        if k == "search":
            return (step[2], None, None, step[3])
        return None
    seen_sigs, seen_fail, seen_search = set(), False, False
    nontrivial_keys = []
    failure = None
    for i, (step, out) in enumerate(zip(steps, outs)):
        ref = fresh_outcome(progs[i])
        sg = sig(progs[i][0]) if step[0] == "use_parser" else sig(step)
        pre = []
        if sg is not None and any(s != sg for s in seen_sigs):
            pre.append("different-settings")
        if seen_fail:
            pre.append("failing")
        if seen_search:
            pre.append("search")
        for p in pre:
            cls.append("preceded:" + p)
        if pre:
            nontrivial_keys.append((tuple(kinds[:i][-3:]), step[0], tuple(pre), sg))
        if out != ref and failure is None:
            what = "mutated-args" if out[0] == "MUTATED-ARGS" else ("exception" if "exc" in (out[0], ref[0]) else "value")
            failure = (i, step, out, ref, what)
        if sg is not None:
            seen_sigs.add(sg)
        if out[0] == "exc":
            seen_fail = True
            cls.append("kind:failing")
        if step[0] == "search":
            seen_search = True
    key = tuple(nontrivial_keys[-1]) if nontrivial_keys else None
    if failure:
        i, step, out, ref, what = failure
        exc_name = ""
        if what == "exception":
            exc_name = ":" + (out[1] if out[0] == "exc" else ref[1])
        skeys = ()
        sg = sig(progs[i][0])
        if sg and sg[3]:
            skeys = tuple(k for k, _ in sg[3])
        return {"ok": False, "bucket": "%s:%s%s" % (step[0], what, exc_name),
                "detail": "step %d %r after %r: in this history -> %r, alone in a fresh process -> %r"
                          % (i, step, [tuple(s) for s in steps[:i]], out, ref), "key": key, "cls": cls}
    for p, out in zip(probes, pouts):
        ref = fresh_outcome([p])
        if out != ref:
            return {"ok": False, "bucket": "default-probe:%s" % ("mutated-args" if out[0] == "MUTATED-ARGS" else "exception" if "exc" in (out[0], ref[0]) else "value"),
                    "detail": "after history %r the default-settings probe %r -> %r, fresh -> %r" % ([tuple(s) for s in steps], p, out, ref),
                    "key": key, "cls": cls}
    return {"ok": True, "key": key, "cls": cls}


@st.composite
def steps(draw, pal_settings, pal_langs):
    def settings_():
        return draw(st.sampled_from(pal_settings)) if draw(st.integers(0, 4)) else draw(st.sampled_from(SETTINGS))

    def langs_(allow_none=True):
        L = draw(st.sampled_from(pal_langs)) if draw(st.integers(0, 4)) else draw(st.sampled_from(LANGS))
        if L is None and not allow_none:
            L = ["en"]
        return L
    k = draw(st.integers(0, 19))
    if k <= 6:
        langs = langs_()
        if langs is None and draw(st.integers(0, 2)):
            langs = ["en"]  # autodetection costs ~1.3 s per settings hash in a cold process: keep its share small
        region = draw(st.sampled_from(REGIONS)) if langs else None
        locs = None
        if draw(st.integers(0, 11)) == 0:
            langs, region, locs = None, None, draw(st.sampled_from([["fr-BE"], ["en-AU"], ["fr-CA"], ["es-MX"], ["de-AT"]]))
        sd = settings_()
        if langs is None and locs is None and sd:
            # autodetection with a new settings hash rebuilds the regexes of all 205 locales (~1.3 s): mostly default settings
            sd = draw(st.sampled_from([None, None, None, SETTINGS[4], SETTINGS[9]]))
        return ["parse", draw(st.sampled_from(STRINGS)), draw(st.sampled_from(FORMATS)), langs, locs, region, sd]
    if k <= 9:
        return ["new_parser", draw(st.integers(0, 3)), langs_(allow_none=False), None, draw(st.sampled_from(REGIONS)), draw(st.booleans()),
                settings_()]
    if k <= 13:
        return ["use_parser", draw(st.integers(0, 3)), draw(st.sampled_from(STRINGS)), draw(st.sampled_from(FORMATS))]
    if k <= 16:
        langs = draw(st.sampled_from([["en"], ["fr"], ["de"], ["ru"], ["tr"], ["en"], ["en"], None]))
        sd = settings_() if langs else draw(st.sampled_from(SETTINGS[:4]))
        return ["search", draw(st.sampled_from(TEXTS)), langs, sd, draw(st.booleans())]
    if k == 17:
        which = draw(st.sampled_from(["jalali", "hijri"]))
        return ["calendar", which, draw(st.sampled_from(CAL_STRINGS if which == "jalali" else HIJRI_STRINGS))]
    j = draw(st.integers(0, 3))
    if j == 0:
        return ["parse", draw(st.sampled_from(STRINGS)), None, ["en"], None, None, draw(st.sampled_from(BAD_SETTINGS))]
    if j == 1:
        return ["parse", draw(st.sampled_from(STRINGS)), None, draw(st.sampled_from([["xx"], ["en", "zz"]])), None, None, None]
    if j == 2:
        return ["parse", draw(st.sampled_from(STRINGS)), None, None, draw(st.sampled_from([["en-ZZ"], ["en-US", "en-GB"]])), None, None]
    return ["search", draw(st.sampled_from(TEXTS)), ["xx"], None, False]


@st.composite
def histories(draw, maxlen):
    # a small palette per history, so that equal settings dicts and language sets recur inside one history
    pal_settings = draw(st.lists(st.sampled_from(SETTINGS[3:]), min_size=2, max_size=3)) + [None]
    pal_langs = draw(st.lists(st.sampled_from(LANGS[1:]), min_size=2, max_size=3)) + [None]
    h = draw(st.lists(steps(pal_settings, pal_langs), min_size=2, max_size=maxlen))
    return {"history": h}


PROBE_STRINGS = ["yesterday", "2 days ago", "02-03-2016", "01/02/2020", "02-03-2016", "02/03/2020 10h15", "10/11/12", "27 Haziran 1981 de", "t 12 jan 2020", "March 2015", "Monday",
                 "12 janvier 2020", "hier", "tomorrow", "14:05", "sept 2015", "12 Ocak 2020", "in 3 weeks", "1 day ago 2 PM"]


VALUE_POOL = {
    "RELATIVE_BASE": [[1957, 10, 4, 0, 0, 0, 0], [2020, 2, 29, 12, 0, 0, 0], [2000, 1, 1, 8, 30, 0, 0], [2031, 7, 31, 23, 59, 0, 0]],
    "SKIP_TOKENS": [[], ["de"], ["t"], ["foo", "bar"], ["de", "t"]], "NORMALIZE": [True, False],
    "DATE_ORDER": ["DMY", "MDY", "YMD"], "PREFER_LOCALE_DATE_ORDER": [True, False],
    "PREFER_DATES_FROM": ["past", "future", "current_period"], "PREFER_DAY_OF_MONTH": ["first", "last", "current"],
    "PREFER_MONTH_OF_YEAR": ["first", "last", "current"], "CACHE_SIZE_LIMIT": [1, 2, 1000],
    "DEFAULT_LANGUAGES": [["fr"], ["tl", "en"], ["fr", "en"], ["en", "fr"]], "TIMEZONE": ["UTC+3", "UTC", "local", "Asia/Tokyo"],
    "TO_TIMEZONE": ["EST", "UTC", "Asia/Kolkata"], "RETURN_AS_TIMEZONE_AWARE": [True, False], "STRICT_PARSING": [True, False],
    "REQUIRE_PARTS": [["year"], ["day"], ["month", "year"]], "RETURN_TIME_AS_PERIOD": [True, False],
    "PARSERS": [["absolute-time", "relative-time"], ["absolute-time"], ["relative-time", "timestamp"]],
}


def _revalue(draw, sd):
    """sd with the value of one of its own keys replaced by another valid value (None if sd has no key to change)"""
    keys = [k for k in (sd or {}) if k in VALUE_POOL]
    if not keys:
        return None
    key = draw(st.sampled_from(sorted(keys)))
    others = [v for v in VALUE_POOL[key] if v != sd[key]]
    out = copy.deepcopy(sd)
    out[key] = copy.deepcopy(draw(st.sampled_from(others)))
    return out


def _variant(draw, sd):
    """a settings dict equal to sd, or differing from it in exactly one key (added, removed or given another value), or
    unrelated"""
    k = draw(st.integers(0, 7))
    if k in (2, 5) and sd:
        r = _revalue(draw, sd)
        if r is not None:
            return r
    if k == 7 and sd:
        # the same dict with one list value in another order
        base = copy.deepcopy(sd)
        for key, val in base.items():
            if isinstance(val, list) and len(val) > 1 and key != "RELATIVE_BASE":
                base[key] = list(reversed(val))
                return base
        return base
    if k == 6 or (sd in DEFAULT_EQUIV and k >= 4):
        return copy.deepcopy(draw(st.sampled_from(DEFAULT_EQUIV)))
    if k <= 1:
        return copy.deepcopy(sd)
    if k <= 3:
        base = dict(sd or {})
        key, val = draw(st.sampled_from([("SKIP_TOKENS", ["de"]), ("SKIP_TOKENS", []), ("NORMALIZE", False), ("DATE_ORDER", "DMY"), ("DATE_ORDER", "YMD"),
                                         ("PREFER_LOCALE_DATE_ORDER", False), ("CACHE_SIZE_LIMIT", 1), ("DEFAULT_LANGUAGES", ["tl"]),
                                         ("RELATIVE_BASE", [1957, 10, 4, 0, 0, 0, 0]), ("PARSERS", ["absolute-time"]), ("PREFER_DATES_FROM", "future")]))
        if base.get(key) == val:
            base.pop(key)
        else:
            base[key] = val
        return base
    return draw(st.sampled_from(SETTINGS))


@st.composite
def triples(draw):
    """setup call, 1-2 interfering calls, probe call that repeats the setup or reuses its parser"""
    L1 = draw(st.sampled_from(LANGS[1:]))
    S1 = draw(st.sampled_from(SETTINGS[2:])) if draw(st.integers(0, 3)) else copy.deepcopy(draw(st.sampled_from(DEFAULT_EQUIV)))
    region = draw(st.sampled_from(REGIONS))
    s1 = draw(st.sampled_from(PROBE_STRINGS))
    use_instance = draw(st.booleans())
    sc = draw(st.integers(0, 19))
    if sc in (17, 18):
        # the opt-in no-spaces parser under different date orders (explicit or the locale's own) in one process
        ns_strings = ["010519991030", "20150305", "150305", "05011999", "0301", "19990501103045", "0105991030", "311299"]
        same = draw(st.sampled_from(ns_strings))

        def ns_call():
            L = draw(st.sampled_from([["en"], ["en"], ["fr"], ["ja"], ["de"], ["tl"]]))
            S = {"PARSERS": draw(st.sampled_from([["no-spaces-time"], ["no-spaces-time"], ["no-spaces-time", "absolute-time"], ["timestamp", "no-spaces-time"]]))}
            o = draw(st.sampled_from([None, "DMY", "YMD", "MDY", "YDM", "MYD", "DYM", "DMY", "YMD"]))
            if o:
                S["DATE_ORDER"] = o
            return ["parse", same if draw(st.integers(0, 3)) else draw(st.sampled_from(ns_strings)), None, L, None, None, S]
        first = ns_call()
        h = [first, ns_call()]
        if draw(st.booleans()):
            h.append(ns_call())
        h.append(copy.deepcopy(first))
        return {"history": h}
    if sc == 8:
        # the same set of languages (or locales) in two orders, both with use_given_order: whatever is memoised per *set* of codes
        # must not keep the first caller's order
        L = list(draw(st.sampled_from([["en", "fr"], ["en", "de"], ["fr", "en", "ja"], ["es", "en"], ["ru", "en"], ["de", "tl"]])))
        R = list(reversed(L))
        strs = ["11/12/2020", "02-03-2016", "10/11/12", "01/02/2020 10:00", "03.04.2015", "12 janvier 2020"]
        S = copy.deepcopy(draw(st.sampled_from([None, None, {"PREFER_DATES_FROM": "past"}])))
        s_ = draw(st.sampled_from(strs))
        h = [["new_parser", 0, L, None, None, True, S], ["use_parser", 0, s_, None],
             ["new_parser", 1, R, None, None, True, copy.deepcopy(S)], ["use_parser", 1, draw(st.sampled_from([s_, s_, draw(st.sampled_from(strs))])), None]]
        if draw(st.booleans()):
            h.append(["new_parser", 2, L, None, None, draw(st.booleans()), copy.deepcopy(S)])
            h.append(["use_parser", 2, s_, None])
        h.append(["use_parser", 0, s_, None])
        return {"history": h}
    if sc in (9, 10):
        # two (or three) live parsers for the same languages whose settings differ in the value of exactly one key, used in
        # turn: objects that are shared between "almost equal" configurations (the Settings registry, per-settings caches)
        # show up as one parser answering with the other's configuration
        Sa = copy.deepcopy(draw(st.sampled_from([x for x in SETTINGS if x])))
        Sb = _revalue(draw, Sa)
        L = draw(st.sampled_from(LANGS[1:]))
        probe_strs = ["yesterday", "2 days ago", "Monday", "March 2015", "14:05", "02-03-2016", "10/11/12", "27 Haziran 1981 de", "t 12 jan 2020",
                      "12 janvier 2020", "in 3 weeks", "3 Feb 2015 14:05 EST", "2015"]
        h = [["new_parser", 0, L, None, None, False, Sa]]
        if draw(st.booleans()):
            h.append(["use_parser", 0, draw(st.sampled_from(probe_strs)), None])
        h.append(["new_parser", 1, L, None, None, False, Sb])
        if draw(st.booleans()):
            h.append(["new_parser", 2, L, None, None, False, _revalue(draw, Sb)])
        for _ in range(draw(st.integers(2, 4))):
            h.append(["use_parser", draw(st.sampled_from([0, 0, 1, 2])), draw(st.sampled_from(probe_strs)), None])
        return {"history": h}
    if sc in (13, 14):
        # one locale, several calls whose settings agree in some of the keys the per-locale memos are built from (NORMALIZE picks
        # the dictionary object, SKIP_TOKENS / CACHE_SIZE_LIMIT live inside it) and differ in others, on strings that contain
        # the skipped words or unaccented spellings: whatever a memoised dictionary keeps from its first user shows up here
        L, strs = draw(st.sampled_from([
            (["en"], ["foo 12 March 2020 bar", "t 12 jan 2020", "12 March 2020", "de 3 May 2015 de", "2 days ago foo"]),
            (["tr"], ["27 Haziran 1981 de", "27 Haziran 1981", "foo 12 Ocak 2020", "12 Subat 2020"]),
            (["fr"], ["12 fevrier 2020", "12 février 2020 de", "foo 12 janvier 2020 bar", "t 12 aout 2020"]),
            (["de"], ["3 Marz 2015 14:05", "3 März 2015 14:05 foo", "t 3 März 2015", "de 3 Mai 2015"]),
            (["es"], ["12 de enero de 2020", "foo 12 enero 2020 bar", "t 12 enero 2020"])]))

        def matrix_settings():
            S = {}
            n = draw(st.sampled_from([None, True, False, False]))
            if n is not None:
                S["NORMALIZE"] = n
            k = draw(st.sampled_from([None, [], ["de"], ["t"], ["foo", "bar"], ["foo", "bar"], ["bar", "foo", "de"]]))
            if k is not None:
                S["SKIP_TOKENS"] = list(k)
            if draw(st.integers(0, 4)) == 0:
                S["CACHE_SIZE_LIMIT"] = draw(st.sampled_from([1, 2]))
            return S or None
        h = []
        for _ in range(draw(st.integers(2, 4))):
            S = matrix_settings()
            k = draw(st.integers(0, 5))
            if k == 0:
                h.append(["search", "We met on " + draw(st.sampled_from(strs)) + " and left.", L, S, False])
            elif k == 1:
                h.append(["new_parser", len(h), L, None, None, False, S])
                h.append(["use_parser", len(h) - 1, draw(st.sampled_from(strs)), None])
            else:
                h.append(["parse", draw(st.sampled_from(strs)), None, L, None, None, S])
        return {"history": h}
    if sc == 15:
        pair = draw(st.sampled_from([({"STRICT_PARSING": True}, {"STRICT_PARSING": "True"}), ({"NORMALIZE": False}, {"NORMALIZE": "False"}),
                                     ({"CACHE_SIZE_LIMIT": 2}, {"CACHE_SIZE_LIMIT": "2"}), ({"PREFER_LOCALE_DATE_ORDER": False}, {"PREFER_LOCALE_DATE_ORDER": "False"}),
                                     ({"REQUIRE_PARTS": ["year"]}, {"REQUIRE_PARTS": "['year']"}), ({"RETURN_AS_TIMEZONE_AWARE": True}, {"RETURN_AS_TIMEZONE_AWARE": "True"})]))
        L = draw(st.sampled_from(LANGS[1:]))
        s_ = draw(st.sampled_from(STRINGS))
        h = [["parse", s_, None, L, None, None, copy.deepcopy(pair[0])]]
        if draw(st.booleans()):
            h.append(["new_parser", 0, L, None, None, False, copy.deepcopy(pair[0])])
        h.append(["parse", draw(st.sampled_from([s_, "", "1500000000", "2015-02-03"])), None, L, None, None, copy.deepcopy(pair[1])])
        return {"history": h}
    if sc == 16:
        # sequences of zone-bearing strings (the zone popper scans an ordered table; anything it remembers between calls shows
        # up as 'UTC+03:00' read after a plain 'UTC')
        zs = ["2015-02-03 14:05 UTC", "2015-02-03 14:05 UTC+03:00", "2 hours ago UTC+3", "10:00 GMT", "10:00 GMT-5", "3 Feb 2015 14:05 EST",
              "2015-02-03 14:05 +0530", "3 Feb 2015 14:05 (IST)", "2015-02-03T14:05:00Z", "yesterday 10:00 UTC", "2015-02-03 14:05 GMT+0530 (IST)",
              "3 February 2015 2 PM CST", "2015-02-03 14:05 UTC-05:00"]
        L = draw(st.sampled_from([["en"], ["en"], None, ["en", "fr"]]))
        h = [["parse", draw(st.sampled_from(zs)), None, L, None, None, None] for _ in range(draw(st.integers(2, 4)))]
        if draw(st.booleans()):
            h.insert(1, ["search", "Meeting on 3 Feb 2015 14:05 UTC. Then 4 Feb 2015 10:00 UTC+3.", ["en"], None, False])
        return {"history": h}
    if sc == 19:
        # autodetection sequences with default settings through the top-level function: a non-English string first, then
        # strings whose reading depends on which locale is tried first (ambiguous numeric order, a zone abbreviation that is
        # a word of that language)
        firsts = ["12 janvier 2020", "2. svibnja 2015", "3 März 2015 14:05", "12 de enero de 2020", "1 января 2020 г.", "12 Ocak 2020",
                  "5 stycznia 2020", "2020年1月12日"]
        later = ["10/03/2015", "02-03-2016", "15.10.2014 10:30 CET", "Jan 1, 2020 00:00 ET", "1 January 2020 10:00 PT", "10/11/12",
                 "2020-01-15 10:00 MIT", "03/04/2012 5 pm"]
        h = [["parse", draw(st.sampled_from(firsts)), None, None, None, None, None]]
        for _ in range(draw(st.integers(1, 3))):
            h.append(["parse", draw(st.sampled_from(later + firsts)), None, None, None, None, None])
        return {"history": h}
    if draw(st.integers(0, 9)) == 2:
        # explicit-default settings on a long-lived parser: what the caller passed explicitly matters (an explicit DATE_ORDER
        # switches the locale's own order off) even when the effective values equal the defaults; the interfering call passes
        # another dict with equal effective values
        S1 = copy.deepcopy(draw(st.sampled_from([{"DATE_ORDER": "MDY"}, {"DATE_ORDER": "MDY", "NORMALIZE": True}, {"PREFER_LOCALE_DATE_ORDER": True},
                                                  {"SKIP_TOKENS": ["t"]}, {}])))
        L1 = draw(st.sampled_from([["fr"], ["de"], ["ja"], ["ru"], ["es", "fr"], ["tl"], ["en"]]))
        probe = draw(st.sampled_from(["02-03-2016", "01/02/2020", "10/11/12", "t 12 jan 2020"]))
        h = [["new_parser", 0, L1, None, None, False, S1]]
        if draw(st.booleans()):
            h.append(["use_parser", 0, probe, None])
        S2 = copy.deepcopy(draw(st.sampled_from(DEFAULT_EQUIV)))
        if draw(st.booleans()):
            h.append(["new_parser", 1, draw(st.sampled_from([L1, ["en"], ["fr"]])), None, None, False, S2])
        else:
            h.append(["parse", draw(st.sampled_from(STRINGS)), None, draw(st.sampled_from(LANGS[1:])), None, None, S2])
        h.append(["use_parser", 0, probe, None])
        return {"history": h}
    if sc in (11, 12) or draw(st.integers(0, 9)) == 1:
        # search_dates as the repeated call: language detection among several candidates keeps per-locale memos that are built
        # by whichever call comes first, so the same search is made twice around an interfering call
        langs = draw(st.sampled_from([None, ["fr", "en"], ["de", "fr"], ["en", "fr", "de"], ["fr"], ["tr", "en"], ["en", "ru"], ["ru", "en"],
                                      ["en", "de"], ["de", "en", "fr"]]))
        Ss = draw(st.sampled_from([None, {"NORMALIZE": False}, {"NORMALIZE": False, "DATE_ORDER": "DMY"}, {"SKIP_TOKENS": ["de"]},
                                   {"DATE_ORDER": "DMY"}, {"NORMALIZE": True}]))
        text = draw(st.sampled_from(TEXTS))
        add = draw(st.booleans())
        h = [["search", text, langs, copy.deepcopy(Ss), add]]
        k = draw(st.integers(0, 3))
        if k == 0:
            other = draw(st.sampled_from([None, ["fr", "en"], ["de"]]))
            if langs and len(langs) > 1 and draw(st.booleans()):
                # the same candidate languages in another order (or with one listed twice): whatever detection memoises per
                # *set* of candidates must not be laid out for the first caller's order
                other = list(reversed(langs)) if draw(st.booleans()) else list(langs) + [langs[0]]
            h.append(["search", draw(st.sampled_from([text, draw(st.sampled_from(TEXTS))])), other, _variant(draw, Ss), False])
        elif k == 1:
            h.append(["parse", draw(st.sampled_from(STRINGS)), None, draw(st.sampled_from(LANGS[1:])), None, None, _variant(draw, Ss)])
        h.append(["search", text, langs, copy.deepcopy(Ss), add])
        return {"history": h}
    if draw(st.integers(0, 5)) == 0:
        # order-sensitive list settings: the fallback order of DEFAULT_LANGUAGES matters when the given languages fail and
        # the given order is requested; the interfering call uses the same list in another order
        dl = draw(st.permutations(draw(st.sampled_from([["fr", "en"], ["de", "en"], ["es", "en", "fr"]]))))
        S1 = dict(draw(st.sampled_from([{}, {"NORMALIZE": True}, {"PREFER_DATES_FROM": "past"}])), DEFAULT_LANGUAGES=list(dl))
        L1 = draw(st.sampled_from([["ja"], ["zh"], ["ko"]]))
        region = None
        s1 = draw(st.sampled_from(["02/03/2020 10h15", "02.03.2020 10h15", "02-03-2016 Uhr"]))
        h = [["new_parser", 0, L1, None, None, True, copy.deepcopy(S1)]]
        S2 = dict(S1, DEFAULT_LANGUAGES=list(reversed(S1["DEFAULT_LANGUAGES"]))) if draw(st.booleans()) else _variant(draw, S1)
        if draw(st.booleans()):
            h.append(["new_parser", 1, draw(st.sampled_from([L1, ["en"]])), None, None, draw(st.booleans()), S2])
        else:
            h.append(["parse", draw(st.sampled_from(STRINGS)), None, draw(st.sampled_from(LANGS[1:])), None, None, S2])
        h.append(["use_parser", 0, s1, None])
        # the same long-lived parser falls through to DEFAULT_LANGUAGES again (and again): the fallback must work every time
        for _ in range(draw(st.integers(0, 3))):
            h.append(["use_parser", 0, draw(st.sampled_from(["02/03/2020 10h15", "02.03.2020 10h15", "02-03-2016 Uhr", "12 janvier 2020", "3 März 2015 14:05",
                                                             "12 de enero de 2020", "14 de abril de 2021", "yesterday", "hier", "02-03-2016"])), None])
        return {"history": h}
    h = []
    if use_instance:
        h.append(["new_parser", 0, L1, None, region, draw(st.booleans()), copy.deepcopy(S1)])
        if draw(st.booleans()):
            h.append(["use_parser", 0, s1, None])
    else:
        h.append(["parse", s1, None, L1, None, region, copy.deepcopy(S1)])
    for _ in range(draw(st.integers(1, 2))):
        S2 = _variant(draw, S1)
        L2 = draw(st.sampled_from([L1, L1, draw(st.sampled_from(LANGS[1:]))]))
        k = draw(st.integers(0, 9))
        if k <= 2:
            h.append(["parse", draw(st.sampled_from(STRINGS)), draw(st.sampled_from(FORMATS)), L2, None, draw(st.sampled_from(REGIONS)), S2])
        elif k <= 5:
            lang = [L2[0]] if L2[0] in ("en", "fr", "de", "ru", "tr") else ["en"]
            text = {"en": TEXTS[0], "fr": TEXTS[1], "de": TEXTS[2], "ru": TEXTS[4], "tr": TEXTS[8]}[lang[0]]
            h.append(["search", draw(st.sampled_from([text, text, draw(st.sampled_from(TEXTS))])), lang, S2, draw(st.booleans())])
        elif k <= 7:
            h.append(["new_parser", 1, L2, None, draw(st.sampled_from(REGIONS)), draw(st.booleans()), S2])
            h.append(["use_parser", 1, draw(st.sampled_from(STRINGS)), None])
        elif k == 8:
            bad = dict(S2 or {})
            bad.update(draw(st.sampled_from(BAD_SETTINGS)))
            h.append(["parse", draw(st.sampled_from(STRINGS)), None, L2, None, None, bad])
        else:
            h.append(["parse", draw(st.sampled_from(["0001-01-01", "9999-12-31 23:59", "Monday", "kam"])), None, L2, None, None,
                      dict(S2 or {}, RELATIVE_BASE=draw(st.sampled_from([[1, 1, 1, 0, 0, 0, 0], [9999, 12, 31, 23, 0, 0, 0]])),
                           PREFER_DATES_FROM=draw(st.sampled_from(["past", "future"])))])
    s2 = draw(st.sampled_from([s1, s1, draw(st.sampled_from(PROBE_STRINGS))]))
    if use_instance:
        h.append(["use_parser", 0, s2, None])
    else:
        h.append(["parse", s2, None, L1, None, region, copy.deepcopy(S1)])
    return {"history": h}


# -- regional-locale families ---------------------------------------------------------------------------

_FAM = []


def _families():
    """[(language, [(locale, [strings that use words/orders only that locale defines])], [base-language strings])] for every
    language whose regional locales override word lists or the date order (read from the tree's data modules)."""
    if _FAM:
        return _FAM
    from vlib import data
    lld = data.language_locale_dict()
    for lang in data.language_order():
        try:
            base = data.raw_info(lang)
        except Exception:
            continue
        spec = base.get("locale_specific") or {}
        locs = []
        for loc in lld.get(lang, []):
            ov = spec.get(loc) or {}
            strs = []
            for k, v in sorted(ov.items()):
                if isinstance(v, list):
                    for w in v[:2]:
                        if k in data.MONTHS:
                            strs.append("10 %s 2020" % w)
                        elif k in data.WEEKDAYS:
                            strs.append("%s" % w)
                        else:
                            strs.append("%s" % w)
                elif isinstance(v, dict):
                    for kk, ws in sorted(v.items())[:3]:
                        for w in ws[:1]:
                            if "\\" not in w and "(" not in w:
                                strs.append(w)
            if ov:
                locs.append((loc, strs[:6], ov.get("date_order")))
        if len(locs) >= 1:
            bstr = ["10 %s 2020" % base[m][0] for m in ("january", "july") if base.get(m)]
            _FAM.append((lang, locs, bstr))
    return _FAM


@st.composite
def regional_histories(draw):
    """2-5 calls on one language family: the plain language, its regional locales (by locale code, or language + region), in a
    drawn order, on strings that only one regional locale understands, on ambiguous numeric dates (the regional date order) and
    on plain base-language strings; the first call is repeated at the end.  Whatever one locale of a family leaves behind in
    data shared with its siblings (word lists, the order, memoised dictionaries) shows against the fresh-process reference."""
    fams = _families()
    # families with word overrides are the interesting half; en/es/fr/ar/pt/de... have many locales
    lang, locs, bstr = draw(st.sampled_from(fams))
    numeric = ["04/03/2012", "03.04.2012", "04-03-12", "2012/04/03"]
    pool = list(bstr) + numeric
    chosen = draw(st.lists(st.sampled_from(locs), min_size=1, max_size=3))
    for loc, strs, order in chosen:
        pool.extend(strs)
    sdicts = [None, None, None, {"NORMALIZE": False}, {"NORMALIZE": False}, {"PREFER_LOCALE_DATE_ORDER": False}, {"DATE_ORDER": "DMY"},
              {"SKIP_TOKENS": []}]

    def call(i):
        tgt = draw(st.integers(0, 5))
        S = copy.deepcopy(draw(st.sampled_from(sdicts)))
        s_ = draw(st.sampled_from(pool))
        loc = draw(st.sampled_from(chosen))[0]
        langs = locs_ = region = None
        if tgt <= 1:
            langs = [lang]
        elif tgt <= 3:
            locs_ = [loc]
        elif tgt == 4:
            langs, region = [lang], loc.rsplit("-", 1)[1]
        else:
            other = draw(st.sampled_from(locs))[0]
            locs_ = [loc] if other == loc else [loc, other]
        k = draw(st.integers(0, 5))
        if k == 0 and langs and not region:
            return [["search", "We met on " + s_ + " and left.", langs, S, False]]
        if k == 1:
            return [["new_parser", i, langs, locs_, region, False, S], ["use_parser", i, s_, None]]
        return [["parse", s_, None, langs, locs_, region, S]]
    h = []
    for i in range(draw(st.integers(2, 4))):
        h.extend(call(i))
    first = h[0] if h[0][0] != "new_parser" else None
    if first is not None and draw(st.booleans()):
        h.append(copy.deepcopy(first))
    return {"history": h}


# -- corpus-driven histories ------------------------------------------------------------------------------

_CORPUS = {}


def _corpus_by_lang():
    """language -> [strings] from the corpus extracted from the repository's tests (3,140 strings, ~100 languages)"""
    if not _CORPUS:
        import json
        with open(os.path.join(VERIF, "corpus", "strings.json")) as f:
            for e in json.load(f):
                lang = e["locale"].split("-")[0] if e["locale"] not in ("sr-Latn", "sr-Cyrl", "zh-Hans", "zh-Hant", "uz-Latn", "uz-Cyrl", "uz-Arab") else e["locale"]
                if 0 < len(e["s"]) <= 60:
                    _CORPUS.setdefault(lang, []).append(e["s"])
    return _CORPUS


@st.composite
def corpus_histories(draw):
    """A call on a corpus string (its own language, a language list that contains it, or autodetection), then 1-3 calls on other
    corpus strings of the same or another language under the same or a one-key-variant settings dict, then the first call
    again — through parse, a long-lived parser or search_dates.  The fixed string pools above are hand-picked; this stage
    carries the history shapes over the strings and ~100 languages of the repository's own tests."""
    by = _corpus_by_lang()
    langs = sorted(by)
    L = draw(st.sampled_from(langs))
    s1 = draw(st.sampled_from(by[L]))
    S1 = copy.deepcopy(draw(st.sampled_from(SETTINGS[2:] + DEFAULT_EQUIV)))
    how = draw(st.integers(0, 9))
    if how <= 5:
        La = [L]
    elif how <= 7:
        La = draw(st.permutations([L, draw(st.sampled_from(["en", "fr", "de", "es", "ru", "tl", "ja"]))]))
        La = list(dict.fromkeys(La))
    else:
        La = None
        S1 = draw(st.sampled_from([None, None, SETTINGS[9]]))  # autodetection: few settings hashes (cost)
    use_instance = draw(st.booleans()) and La is not None
    h = []
    if use_instance:
        h.append(["new_parser", 0, La, None, None, draw(st.booleans()), copy.deepcopy(S1)])
        h.append(["use_parser", 0, s1, None])
    else:
        h.append(["parse", s1, None, La, None, None, copy.deepcopy(S1)])
    for _ in range(draw(st.integers(1, 3))):
        L2 = draw(st.sampled_from([L, L, draw(st.sampled_from(langs))]))
        s2 = draw(st.sampled_from(by[L2]))
        S2 = _variant(draw, S1) if La is not None else draw(st.sampled_from([None, None, SETTINGS[9]]))
        k = draw(st.integers(0, 5))
        if k == 0:
            h.append(["search", "We met on " + s2 + " and left. " + s1, [L2], S2, draw(st.booleans())])
        elif k == 1:
            h.append(["new_parser", 1, [L2], None, None, False, S2])
            h.append(["use_parser", 1, s2, None])
        else:
            h.append(["parse", s2, None, [L2] if draw(st.integers(0, 4)) else La, None, None, S2])
    if use_instance:
        h.append(["use_parser", 0, s1, None])
    else:
        h.append(["parse", s1, None, La, None, None, copy.deepcopy(S1)])
    return {"history": h}


# -- parse first, then a language-detecting search ----------------------------------------------------------

_TEXTS_LANG = []


def _texts_lang():
    """[(text, language)] — the search texts of the repository's tests, tagged once (offline, with the pinned tree) with the
    language search_dates detects for them; the tag only steers the generator (which strings are parsed first)."""
    if not _TEXTS_LANG:
        import json
        with open(os.path.join(VERIF, "corpus", "texts_lang.json")) as f:
            for e in json.load(f):
                if e["lang"] and len(e["text"]) <= 300:
                    _TEXTS_LANG.append((e["text"], e["lang"]))
    return _TEXTS_LANG


@st.composite
def detect_histories(draw):
    """One to three parse / get_date_data calls on strings of language X (X selected or autodetected, NORMALIZE on/off), and
    only then the process's first language-detecting search_dates call (no languages, or two-three candidates) on a text in X,
    repeated once.  Per-locale attributes that both the parse side and the detection side build lazily (word characters,
    splitters, dictionaries) are built by whichever comes first: the search must not care.  (The other search scenarios start
    with the search, or run in a warmed process where detection has happened before on both sides of the comparison.)"""
    by = _corpus_by_lang()
    text, X = draw(st.sampled_from(_texts_lang()))
    pool = by.get(X) or by.get(X.split("-")[0]) or ["12 March 2020"]
    h = []
    for i in range(draw(st.integers(1, 3))):
        S = copy.deepcopy(draw(st.sampled_from([None, None, None, {"NORMALIZE": True}, {"NORMALIZE": False}, {"SKIP_TOKENS": []}])))
        s_ = draw(st.sampled_from(pool + [text[:60]]))
        k = draw(st.integers(0, 5))
        if k == 0:
            h.append(["parse", s_, None, None, None, None, None])  # autodetection, default settings
        elif k == 1:
            h.append(["new_parser", i, [X], None, None, False, S])
            h.append(["use_parser", i, s_, None])
        else:
            h.append(["parse", s_, None, [X], None, None, S])
    others = ["en", "es", "fr", "de", "it", "lt", "vi", "mn", "lb", "hsb", "mua", "ru", "uk", "pt", "pl", "cs", "ro", "sq", "be", "fi", "hu"]
    k = draw(st.integers(0, 3))
    if k == 0:
        langs = None
    else:
        langs = list(dict.fromkeys(draw(st.permutations([X] + draw(st.lists(st.sampled_from(others), min_size=1, max_size=2))))))
    Ss = copy.deepcopy(draw(st.sampled_from([None, None, None, {"NORMALIZE": False}, {"DATE_ORDER": "DMY"}])))
    add = draw(st.booleans())
    h.append(["search", text, langs, Ss, add])
    if draw(st.booleans()):
        h.append(["search", text, langs, copy.deepcopy(Ss), add])
    return {"history": h}


# -- model validation with real interpreters -----------------------------------------------------------

def extra_phase(ctx, known, total):
    """Fresh-process reference validated against genuinely new interpreters under several hash seeds."""
    n = ctx.n(12, 200)
    progs = []
    x = derive_seed(ctx.seed, "validate")
    pool = []
    for s in STRINGS[:24]:
        for langs in (None, ["fr", "en"], ["tl"]):
            for sd in (None, {"DATE_ORDER": "DMY"}, {"SKIP_TOKENS": ["de"]}):
                pool.append(("parse", s, None, langs, None, None, sd))
    for t in TEXTS[:5]:
        pool.append(("search", t, ["en"], None, True))
    for i in range(n):
        x = derive_seed(x, i)
        progs.append(tuple(_tuplify(v) for v in pool[x % len(pool)]))
    info = {"interpreter_validations": 0, "hash_seeds": ["0", "1", "12345", "random"], "mismatches": 0}
    code = ("import sys, pickle\nsys.path[:0]=[%r,%r]\nfrom checks import c03\nfrom vlib import clock\nimport datetime as dt\n"
            "progs = pickle.loads(sys.stdin.buffer.read())\nout=[]\n"
            "for p in progs:\n    clock.freeze(c03.NOW)\n    out.append(c03._call(c03._untuple_step(p), {'parsers': {}}))\n"
            "sys.stdout.buffer.write(pickle.dumps(out))\n") % (REPO, VERIF)
    # NOTE: inside one interpreter the calls form a history themselves, so each interpreter gets ONE call
    procs = []
    for i, p in enumerate(progs):
        hs = info["hash_seeds"][i % 4]
        env = dict(os.environ)
        env["PYTHONHASHSEED"] = hs
        env["PYTHONPATH"] = "%s:%s" % (REPO, VERIF)
        procs.append((p, hs, subprocess.Popen([sys.executable, "-c", code], stdin=subprocess.PIPE, stdout=subprocess.PIPE,
                                              stderr=subprocess.PIPE, env=env, cwd=VERIF)))
        if len(procs) >= 16 or i == len(progs) - 1:
            for p2, hs2, pr in procs:
                o, e = pr.communicate(pickle.dumps([p2]), timeout=600)
                if pr.returncode != 0:
                    raise HarnessError("validation interpreter failed: " + e.decode()[-800:])
                real = pickle.loads(o)[0]
                model = fresh_outcome([p2])
                info["interpreter_validations"] += 1
                total.evaluations += 1
                if real != model:
                    info["mismatches"] += 1
                    total.failures.setdefault("fresh-interpreter-differs", ({"history": [list(_untuple_step(p2))]},
                                              "call %r: new interpreter (PYTHONHASHSEED=%s) -> %r, forked fresh process -> %r" % (p2, hs2, real, model)))
            procs = []
    return info


def stages(ctx):
    return [Stage("triples_cold", "hyp", strategy=triples(), examples=ctx.n(160, 4000)),
            Stage("histories_cold", "hyp", strategy=histories(ctx.n(10, 50)), examples=ctx.n(48, 1200)),
            Stage("detect_cold", "hyp", strategy=detect_histories(), examples=ctx.n(160, 2000)),
            Stage("regional_cold", "hyp", strategy=regional_histories(), examples=ctx.n(600, 12000)),
            Stage("triples_warm", "hyp", strategy=triples(), examples=ctx.n(1600, 40000), check=check_warm),
            Stage("histories_warm", "hyp", strategy=histories(ctx.n(14, 50)), examples=ctx.n(200, 8000), check=check_warm),
            Stage("corpus_histories_warm", "hyp", strategy=corpus_histories(), examples=ctx.n(600, 20000), check=check_warm)]
