"""C15 — Jalali and Hijri dates convert to the right Gregorian date (DESIGN.md §4 C15)."""
import datetime as dt
import functools

from hypothesis import strategies as st

from vlib.runner import Stage, derive_seed

ID = "C15"
RULE = ("Jalali 1200..1500 and Hijri 1343..1500: every (y, m, d) with d within the month length (Esfand 30 in leap years; "
        "Hijri days 1..min(length, 30)) — thorough: every day once with the spelling rotating (exhaustive over (y,m,d)); "
        "quick: the first and last day of every month of every year plus Hypothesis-drawn dates. Spellings: y/m/d, y-m-d, "
        "zero-padded or not, Persian digits, 'd <month> y' with every listed Persian month spelling, optional weekday name, "
        "spelled-out day, optional time ('HH:MM', 'saat HH va MM daghighe'); Hijri: y/m/d, y-m-d, d-m-y with d>12, optional "
        "time and sabahan/masa'an. Oracle: the conversion libraries called directly (convertdate.persian.to_gregorian, "
        "hijridate.Hijri(..).to_gregorian()), an arithmetic Jalali algorithm written in the harness (admitted only for years "
        "where a start-up self-check shows it agrees with convertdate), and day-consecutiveness across month/year boundaries. "
        "Non-trivial = day>=29, month 12, leap year, name/digit spelling or time present; distinct on (calendar, y, m, d, spelling).")
ASSUMPTIONS = ["convertdate (astronomical) and hijridate in site-packages are the reference conversions; they are not part of the tree under test",
               "ambiguous day-first numeric Hijri spellings (d<=12) are not generated: the calendar parsers read a-b-yyyy month-first",
               "dates beyond the month length are outside the property (valid dates only); hijridate's three 31-day months are excluded"]
ESSENTIAL = ["jalali", "hijri", "jalali:leap-esfand-30", "spelling:named", "spelling:persian-digits", "spelling:spelled-day",
             "with-time", "month-end", "consecutive-pair"]

P_DIGITS = "۰۱۲۳۴۵۶۷۸۹"
J_MONTHS = [["فروردین"], ["اردیبهشت"], ["خرداد"], ["تیر"], ["امرداد", "مرداد"], ["شهریور", "شهريور"], ["مهر"], ["آبان"],
            ["آذر"], ["دی"], ["بهمن"], ["اسفند"]]
# python weekday (Mon=0) -> Persian name
J_WEEKDAYS = {0: "دوشنبه", 1: "سه شنبه", 2: "چهارشنبه", 3: "پنجشنبه", 4: "جمعه", 5: "شنبه", 6: "یکشنبه"}
J_NUMBERS = {1: "یک", 2: "دو", 3: "سه", 4: "چهار", 5: "پنج", 6: "شش", 7: "هفت", 8: "هشت", 9: "نه", 10: "ده", 11: "یازده",
             12: "دوازده", 13: "سیزده", 14: "چهارده", 15: "پانزده", 16: "شانزده", 17: "هفده", 18: "هجده", 19: "نوزده",
             20: "بیست", 21: "بیست و یک", 22: "بیست و دو", 23: "بیست و سه", 24: "بیست و چهار", 25: "بیست و پنج",
             26: "بیست و شش", 27: "بیست و هفت", 28: "بیست و هشت", 29: "بیست و نه", 30: "سی", 31: "سی و یک"}


def pdig(s):
    return "".join(P_DIGITS[ord(c) - 48] if "0" <= c <= "9" else c for c in s)


@functools.lru_cache(maxsize=200000)
def j2g(y, m, d):
    from convertdate import persian
    return persian.to_gregorian(y, m, d)


@functools.lru_cache(maxsize=20000)
def j_month_length(y, m):
    from convertdate import persian
    return persian.month_length(y, m)


@functools.lru_cache(maxsize=200000)
def h2g(y, m, d):
    from hijridate import Hijri
    return Hijri(y, m, d).to_gregorian().datetuple()


@functools.lru_cache(maxsize=20000)
def h_month_length(y, m):
    from hijridate import Hijri
    return Hijri(y, m, 1).month_length()


# -- arithmetic Jalali (33-year-cycle "breaks" algorithm, after Borkowski / jalaali-js), independent of convertdate --
_BREAKS = [-61, 9, 38, 199, 426, 686, 756, 818, 1111, 1181, 1210, 1635, 2060, 2097, 2192, 2262, 2324, 2394, 2456, 3178]


def _jal_cal(jy):
    gy = jy + 621
    leap_j = -14
    jp = _BREAKS[0]
    jump = 0
    for jm in _BREAKS[1:]:
        jump = jm - jp
        if jy < jm:
            break
        leap_j += (jump // 33) * 8 + (jump % 33) // 4
        jp = jm
    n = jy - jp
    leap_j += (n // 33) * 8 + ((n % 33) + 3) // 4
    if jump % 33 == 4 and jump - n == 4:
        leap_j += 1
    leap_g = gy // 4 - ((gy // 100 + 1) * 3) // 4 - 150
    march = 20 + leap_j - leap_g
    return gy, march


def arith_j2g(jy, jm, jd):
    gy, march = _jal_cal(jy)
    doy = (jm - 1) * 31 - (jm // 7) * (jm - 7) + jd - 1
    g = dt.date(gy, 3, march) + dt.timedelta(days=doy)
    return (g.year, g.month, g.day)


_arith_ok = {}


def arith_admitted(y):
    """The arithmetic oracle is admitted for year y iff it agrees with convertdate on the first day of every month of y
    and of y+1's first month (both are consecutive inside a month, so this implies agreement on every day of y)."""
    if y not in _arith_ok:
        ok = all(arith_j2g(y, m, 1) == j2g(y, m, 1) for m in range(1, 13)) and arith_j2g(y + 1, 1, 1) == j2g(y + 1, 1, 1)
        _arith_ok[y] = ok
    return _arith_ok[y]


def jalali_string(y, m, d, sp, hm):
    g = dt.date(*j2g(y, m, d))
    if sp["kind"] == "num":
        sep = sp["sep"]
        parts = [str(y), ("%02d" % m) if sp["pad"] else str(m), ("%02d" % d) if sp["pad"] else str(d)]
        if sp.get("order") == "dmy" and d > 12:  # day-first only when unambiguous (a-b-yyyy with a <= 12 is read month-first)
            parts.reverse()
        s = sep.join(parts)
    else:
        mon = J_MONTHS[m - 1][sp["mname"] % len(J_MONTHS[m - 1])]
        day = str(d)
        if sp.get("spelled"):
            day = J_NUMBERS[d] + ("م" if sp["spelled"] == 2 else "")
        s = "%s %s %d" % (day, mon, y)
        if sp.get("weekday"):
            s = J_WEEKDAYS[g.weekday()] + " " + s
    if hm is not None and len(hm) == 4:
        s += " %02d:%02d:%02d.%06d" % tuple(hm)  # seconds and a fraction: "any clock time in the string preserved"
    elif hm is not None:
        if sp.get("timeform") == 1:
            s += " ساعت %02d و %02d دقیقه" % (hm[0], hm[1])
        else:
            s += " ساعت %02d:%02d" % (hm[0], hm[1]) if sp["kind"] != "num" else " %02d:%02d" % (hm[0], hm[1])
    if sp.get("pdigits"):
        s = pdig(s)
    return s


def hijri_string(y, m, d, sp, hm):
    if sp["order"] == "dmy":
        s = "%02d-%02d-%d" % (d, m, y)
    else:
        s = sp["sep"].join([str(y), ("%02d" % m) if sp["pad"] else str(m), ("%02d" % d) if sp["pad"] else str(d)])
    if hm is not None and len(hm) == 4:
        s += " %02d:%02d:%02d.%06d" % tuple(hm)
    elif hm is not None:
        if sp.get("ampm"):
            h12 = hm[0] % 12 or 12
            s += " %d:%02d %s" % (h12, hm[1], "صباحاً" if hm[0] < 12 else "مساءً")
        else:
            s += " %02d:%02d" % (hm[0], hm[1])
    return s


def check_case(case):
    cal, (y, m, d), sp, hm = case["cal"], case["ymd"], case["sp"], case.get("hm")
    cls = [cal]
    if cal == "jalali":
        from dateparser.calendars.jalali import JalaliCalendar as Cal
        ml = j_month_length(y, m)
        if d > ml:
            return {"ok": True, "skip": "day beyond the month length", "cls": cls}
        s = jalali_string(y, m, d, sp, hm)
        want_date = j2g(y, m, d)
        if m == 12 and d == 30:
            cls.append("jalali:leap-esfand-30")
        if sp["kind"] == "named":
            cls.append("spelling:named")
        if sp.get("pdigits"):
            cls.append("spelling:persian-digits")
        if sp.get("spelled"):
            cls.append("spelling:spelled-day")
        if sp.get("weekday"):
            cls.append("spelling:weekday")
    else:
        from dateparser.calendars.hijri import HijriCalendar as Cal
        ml = h_month_length(y, m)
        if d > min(ml, 30):
            return {"ok": True, "skip": "day beyond the month length (or hijridate's 31-day months)", "cls": cls}
        if sp["order"] == "dmy" and d <= 12:
            return {"ok": True, "skip": "ambiguous day-first numeric spelling", "cls": cls}
        s = hijri_string(y, m, d, sp, hm)
        want_date = h2g(y, m, d)
    if d == ml:
        cls.append("month-end")
    if hm is not None:
        cls.append("with-time")
    want = dt.datetime(*want_date, *(hm or (0, 0)))
    if hm is not None and len(hm) == 4:
        cls.append("with-fractional-seconds")
    nontrivial = d >= 29 or m == 12 or hm is not None or sp.get("kind") == "named" or sp.get("pdigits")
    key = (cal, y, m, d, tuple(sorted((k, v) for k, v in sp.items())), hm is not None) if nontrivial else None
    r = Cal(s).get_date()
    got = r.date_obj if r is not None else None
    skey = "%s:%s" % (cal, sp.get("kind") or sp.get("order"))
    if got != want:
        return {"ok": False, "bucket": "%s:%s" % (skey, "none" if got is None else "wrong"),
                "detail": "%s %04d-%02d-%02d written %r -> %r, reference conversion %r" % (cal, y, m, d, s, got, want), "key": key, "cls": cls}
    if r.period != "day":
        return {"ok": False, "bucket": skey + ":period", "detail": "%r -> period %r" % (s, r.period), "key": key, "cls": cls}
    # secondary oracles
    if cal == "jalali" and arith_admitted(y):
        cls.append("arith-oracle-admitted")
        if arith_j2g(y, m, d) != (got.year, got.month, got.day):
            return {"ok": False, "bucket": "jalali:arith-disagrees", "detail": "%r -> %r but arithmetic Jalali gives %r"
                    % (s, got, arith_j2g(y, m, d)), "key": key, "cls": cls}
    if case.get("pair"):
        # consecutiveness: the next calendar day must map to the next Gregorian day
        ny, nm, nd = y, m, d + 1
        if nd > (ml if cal == "jalali" else min(ml, 30)):
            nd, nm = 1, m + 1
            if nm > 12:
                nm, ny = 1, y + 1
        if (cal == "jalali" and ny <= 1500) or (cal == "hijri" and ny <= 1500 and ml <= 30):
            cls.append("consecutive-pair")
            s2 = jalali_string(ny, nm, nd, sp, hm) if cal == "jalali" else hijri_string(ny, nm, nd, dict(sp, order="ymd", sep=sp.get("sep", "/"), pad=True), hm)
            r2 = Cal(s2).get_date()
            g2 = r2.date_obj if r2 is not None else None
            if g2 is None or g2 - got != dt.timedelta(days=1):
                return {"ok": False, "bucket": cal + ":not-consecutive", "detail": "%r -> %r but next day %r -> %r" % (s, got, s2, g2),
                        "key": key, "cls": cls}
    return {"ok": True, "key": key, "cls": cls}


def _jsp(h):
    kind = "named" if h % 3 else "num"
    sp = {"kind": kind, "pdigits": (h >> 4) % 2}
    if kind == "num":
        sp.update(sep="/-."[(h >> 6) % 3] if (h >> 9) % 2 else "/-"[(h >> 6) % 2], pad=(h >> 7) % 2, order="dmy" if (h >> 9) % 2 else "ymd")
    else:
        sp.update(mname=(h >> 8) % 2, spelled=(h >> 10) % 3, weekday=(h >> 12) % 2, timeform=(h >> 14) % 2)
        if sp["spelled"]:
            sp["pdigits"] = sp["pdigits"]
    return sp


def _hsp(h):
    return {"order": "dmy" if h % 3 == 0 else "ymd", "sep": "/" if (h >> 4) % 2 else "-", "pad": (h >> 6) % 2, "ampm": (h >> 8) % 2}


def _walk(ctx):
    def it(shard, nshards):
        for y in range(1200 + shard, 1501, nshards):
            if ctx.quick:
                h0 = derive_seed(ctx.seed, "months", y)
                months = sorted({12, 1 + h0 % 11, 1 + (h0 >> 8) % 11, 1 + (h0 >> 16) % 11})
            else:
                months = range(1, 13)
            for m in months:
                ml = j_month_length(y, m)
                days = range(1, ml + 1) if not ctx.quick else (1, ml)
                for d in days:
                    h = derive_seed(ctx.seed, "j", y, m, d)
                    hm = None if (h >> 20) % 3 else [(h >> 24) % 24, (h >> 32) % 60]
                    yield {"cal": "jalali", "ymd": [y, m, d], "sp": _jsp(h), "hm": hm, "pair": d == ml}
        for y in range(1343 + shard, 1501, nshards):
            for m in range(1, 13):
                ml = h_month_length(y, m)
                days = range(1, min(ml, 30) + 1) if not ctx.quick else (1, 13, min(ml, 30))
                for d in days:
                    h = derive_seed(ctx.seed, "h", y, m, d)
                    sp = _hsp(h)
                    if sp["order"] == "dmy" and d <= 12:
                        sp["order"] = "ymd"
                    hm = None if (h >> 20) % 3 else [(h >> 24) % 24, (h >> 32) % 60]
                    yield {"cal": "hijri", "ymd": [y, m, d], "sp": sp, "hm": hm, "pair": d == min(ml, 30)}
    return it


def _boundary_years(ctx):
    """The first and last two years of each supported range, every month, days 1 / 13 / last, in *every* numeric spelling
    (order x separator x padding x digit script; a clock time for a third of them): year-dependent defects sit at the range
    ends (a year that spells a UTC offset, a guard that is off by one), and a hash-rotated spelling visits each
    (year, spelling) combination there too rarely."""
    def it(shard, nshards):
        i = 0
        for cal, years in (("jalali", (1200, 1201, 1499, 1500)), ("hijri", (1343, 1344, 1499, 1500))):
            for y in years:
                for m in range(1, 13):
                    ml = j_month_length(y, m) if cal == "jalali" else min(h_month_length(y, m), 30)
                    for d in (1, 13, ml):
                        if cal == "jalali":
                            sps = [{"kind": "num", "order": o, "sep": sep, "pad": pad, "pdigits": pd}
                                   for o in ("ymd", "dmy") for sep in ("/", "-", ".") for pad in (0, 1) for pd in (0, 1)
                                   if not (o == "dmy" and d <= 12) and not (o == "ymd" and sep == ".")]
                        else:
                            sps = [{"order": o, "sep": sep, "pad": pad, "ampm": 0}
                                   for o in ("ymd", "dmy") for sep in ("/", "-") for pad in (0, 1)
                                   if not (o == "dmy" and (d <= 12 or sep == "/" or not pad))]
                        for sp in sps:
                            i += 1
                            if i % nshards != shard:
                                continue
                            h = derive_seed(ctx.seed, "b", cal, y, m, d, i)
                            hm = None if h % 3 else [(h >> 24) % 24, (h >> 32) % 60]
                            if hm is not None and (h >> 40) % 2:
                                hm = hm + [(h >> 44) % 60, [0, 1, 250000, 999999, 500000, 12345][(h >> 50) % 6]]
                            yield {"cal": cal, "ymd": [y, m, d], "sp": sp, "hm": hm, "pair": False}
    return it


def _spelled_grid(ctx):
    """Every spelled-out day word (1-31, bare and with the ordinal suffix, digits too) next to every listed spelling of every
    month, in two years (one of them a leap year): a day word and the month name that follows it meet in the rewriting to Latin,
    so every (day word, month spelling) pair is its own case."""
    def it(shard, nshards):
        i = 0
        for y in (1399, 1394):
            for m in range(1, 13):
                ml = j_month_length(y, m)
                for mi in range(len(J_MONTHS[m - 1])):
                    for d in range(1, ml + 1):
                        for spelled in (1, 2, 0):
                            i += 1
                            if i % nshards != shard:
                                continue
                            h = derive_seed(ctx.seed, "sg", y, m, d, mi, spelled)
                            sp = {"kind": "named", "pdigits": h % 2 if not spelled else 0, "mname": mi, "spelled": spelled,
                                  "weekday": (h >> 4) % 4 == 0, "timeform": (h >> 8) % 2}
                            hm = None if (h >> 12) % 4 else [(h >> 16) % 24, (h >> 24) % 60]
                            yield {"cal": "jalali", "ymd": [y, m, d], "sp": sp, "hm": hm, "pair": False}
    return it


@st.composite
def sampled(draw):
    if draw(st.booleans()):
        y, m = draw(st.integers(1200, 1500)), draw(st.integers(1, 12))
        d = draw(st.one_of(st.integers(1, 29), st.sampled_from([29, 30, 31])))
        sp = _jsp(draw(st.integers(0, 2 ** 20)))
        cal = "jalali"
    else:
        y, m = draw(st.integers(1343, 1500)), draw(st.integers(1, 12))
        d = draw(st.one_of(st.integers(1, 29), st.sampled_from([13, 29, 30])))
        sp = _hsp(draw(st.integers(0, 2 ** 12)))
        cal = "hijri"
    hm = draw(st.one_of(st.none(), st.tuples(st.integers(0, 23), st.integers(0, 59)).map(list)))
    return {"cal": cal, "ymd": [y, m, d], "sp": sp, "hm": hm, "pair": draw(st.booleans())}


def stages(ctx):
    return [Stage("calendar_walk", "enum", cases=_walk(ctx), exhaustive=not ctx.quick),
            Stage("boundary_years", "enum", cases=_boundary_years(ctx), exhaustive=True),
            Stage("spelled_grid", "enum", cases=_spelled_grid(ctx), exhaustive=True),
            Stage("sampled", "hyp", strategy=sampled(), examples=ctx.n(1200, 40000))]
