"""C07 — DATE_ORDER and the locale's own order decide numeric dates (DESIGN.md §4 C07)."""
import datetime as dt

from hypothesis import strategies as st

from dateparser.date import DateDataParser
from vlib import clock, data, gen, tz as vtz
from vlib.gen import mdays
from vlib.runner import Stage, derive_seed

ID = "C07"
RULE = ("Part A (Hypothesis): valid (y,m,d) with y from {1-99, 100-999 zero-padded, 1000-1582, 1900-2100, 9999} rendered in "
        "each of the 6 orders with separators '-', '/', '.', ' ' and an optional ' HH:MM' suffix, parsed with that explicit "
        "DATE_ORDER (PREFER_LOCALE_DATE_ORDER on and off; language en or a drawn language whose own order differs): the "
        "fields must be read as written. Part B (enumeration over all 504 locale codes + Hypothesis): no DATE_ORDER; the "
        "expected order is the locale's date_order after the harness-side overlay (MDY when PREFER_LOCALE_DATE_ORDER is off "
        "or the locale has none); ambiguous digits (d<=12) must be read the locale's way. Non-trivial = d<=12 (ambiguous "
        "day/month) or y<1000 or d>=29; distinct on (order, separator, locale order, ambiguity class, year class, suffix).")
ASSUMPTIONS = ["the locale's order is the 'date_order' key of its data module after locale_specific overlay",
               "digits rendered in an order that conflicts with the expected one and are unambiguous (d>12) assert nothing beyond 'datetime or None'"]
ESSENTIAL = ["part:A", "part:B", "ambiguous", "year<1000", "sep:-", "sep:/", "sep:.", "sep: ", "suffix", "plo:off", "regional-order"]

ORDERS = ["DMY", "DYM", "MDY", "MYD", "YDM", "YMD"]
SEPS = ["-", "/", ".", " "]

_neg_offsets = set()


def neg_offsets():
    if not _neg_offsets:
        offs, _, _ = vtz.source_tables()
        for name in offs:
            if "-" in name:
                _neg_offsets.add(name.split("-")[1].replace(":", ""))
    return _neg_offsets


def render(order, sep, y, m, d):
    f = {"D": "%02d" % d, "M": "%02d" % m, "Y": "%04d" % y}
    return sep.join(f[c] for c in order)


def locale_order(locale):
    return data.info(locale).get("date_order")


_parsers = {}


def _parser(locale, lang, settings_items):
    k = (locale, settings_items)
    p = _parsers.get(k)
    if p is None:
        s = dict(settings_items)
        p = DateDataParser(languages=[lang], settings=s or None) if locale == lang else DateDataParser(locales=[locale], settings=s or None)
        _parsers[k] = p
        if len(_parsers) > 500:
            _parsers.pop(next(iter(_parsers)))
    return p


def check_case(case):
    y, m, d = case["ymd"]
    sep, locale, lang, plo = case["sep"], case["locale"], case["lang"], case["plo"]
    explicit = case["order"]
    hm = case["hm"]
    settings = []
    if explicit:
        settings.append(("DATE_ORDER", explicit))
    if plo is not None:
        settings.append(("PREFER_LOCALE_DATE_ORDER", plo))
    lo = locale_order(locale)
    if explicit:
        eff = explicit
        cls = ["part:A"]
    else:
        eff = lo if (plo is not False and lo) else "MDY"
        cls = ["part:B"]
        if locale != lang and lo != data.raw_info(lang).get("date_order"):
            cls.append("regional-order")
    written = case["written"] or eff
    s = render(written, sep, y, m, d)
    if hm:
        s += " %02d:%02d" % tuple(hm)
        cls.append("suffix")
    cls += ["sep:" + sep, "plo:" + ("default" if plo is None else "on" if plo else "off")]
    ambiguous = d <= 12
    if ambiguous:
        cls.append("ambiguous")
    if y < 1000:
        cls.append("year<1000")
    clock.freeze(dt.datetime(2020, 6, 15, 12, 0))
    try:
        dd = _parser(locale, lang, tuple(settings)).get_date_data(s)
    finally:
        clock.freeze(None)
    got = dd.date_obj
    ycls = "y<100" if y < 100 else "y<1000" if y < 1000 else "y"
    nontrivial = ambiguous or y < 1000 or d >= 29
    key = (written, eff, sep, lo, ambiguous, ycls, bool(hm), plo, bool(explicit)) if nontrivial else None
    if written != eff:
        # digits written in an order that conflicts with the expected one
        cls.append("conflicting")
        if not ambiguous or m == d:
            if not (got is None or isinstance(got, dt.datetime)):
                return {"ok": False, "bucket": "type", "detail": "%r -> %r" % (s, got), "key": key, "cls": cls}
            return {"ok": True, "key": None, "cls": cls}
        # ambiguous: must be read the expected way, i.e. as if the same string were written in `eff`
        pos = {c: i for i, c in enumerate(written)}
        vals = {"D": d, "M": m, "Y": y}
        fields = [vals[c] for c in written]
        try:
            ry, rm, rd = fields[eff.index("Y")], fields[eff.index("M")], fields[eff.index("D")]
            if eff.index("Y") != written.index("Y"):
                return {"ok": True, "skip": "conflicting order moves the 4-digit year", "cls": cls}
            want = dt.datetime(ry, rm, rd, hm[0] if hm else 0, hm[1] if hm else 0)
        except ValueError:
            return {"ok": True, "skip": "conflicting reading invalid", "cls": cls}
    else:
        want = dt.datetime(y, m, d, hm[0] if hm else 0, hm[1] if hm else 0)
    if got is not None and got.tzinfo is not None:
        gcmp = got.replace(tzinfo=None)
    else:
        gcmp = got
    if got != want:
        dash_year = sep == "-" and written[-1] == "Y" and not hm and ("%04d" % y) in neg_offsets()
        if dash_year and got is not None and got.tzinfo is not None and got.utcoffset() == -dt.timedelta(
                hours=int(("%04d" % y)[:2]), minutes=int(("%04d" % y)[2:])):
            b = "dash-year-read-as-utc-offset"  # the recorded finding: '-YYYY' consumed as the offset -HH:MM
        else:
            b = "%s:%s:sep%s:%s" % ("A" if explicit else "B", eff, sep, "none" if got is None else "wrong")
        return {"ok": False, "bucket": b,
                "detail": "%r locale=%s settings=%r (locale order %s) -> %r, expected %r" % (s, locale, dict(settings), lo, got, want),
                "key": key, "cls": cls}
    return {"ok": True, "key": key, "cls": cls}


@st.composite
def ymds(draw):
    y = draw(st.one_of(st.integers(1, 99), st.integers(100, 999), st.integers(1000, 1582), st.integers(1900, 2100),
                       st.just(9999), st.sampled_from([100, 230, 330, 430, 500, 930, 1000, 1100, 1200, 1400])))
    m = draw(st.integers(1, 12))
    d = draw(st.one_of(st.integers(1, mdays(y, m)), st.integers(1, 12), st.just(mdays(y, m))))
    return [y, m, d]


@st.composite
def part_a(draw):
    order = draw(st.sampled_from(ORDERS))
    locs = data.all_locales()
    if draw(st.booleans()):
        locale, lang = "en", "en"
    else:
        locale, lang = draw(st.sampled_from(locs))
    hm = draw(st.one_of(st.none(), st.none(), st.tuples(st.integers(0, 23), st.integers(0, 59)).map(list)))
    return {"ymd": draw(ymds()), "sep": draw(st.sampled_from(SEPS)), "locale": locale, "lang": lang,
            "plo": draw(st.sampled_from([None, True, False])), "order": order, "written": None, "hm": hm}


@st.composite
def part_b(draw):
    locs = data.all_locales()
    locale, lang = draw(st.sampled_from(locs))
    written = draw(st.one_of(st.none(), st.none(), st.sampled_from(["DMY", "MDY"])))
    hm = draw(st.one_of(st.none(), st.none(), st.tuples(st.integers(0, 23), st.integers(0, 59)).map(list)))
    return {"ymd": draw(ymds()), "sep": draw(st.sampled_from(SEPS)), "locale": locale, "lang": lang,
            "plo": draw(st.sampled_from([None, True, False])), "order": None, "written": written, "hm": hm}


def _locale_walk(ctx):
    def it(shard, nshards):
        for i, (locale, lang) in enumerate(data.all_locales()):
            if i % nshards != shard:
                continue
            for j in range(ctx.n(6, 60)):
                h = derive_seed(ctx.seed, locale, j)
                y = [2015, 1999, 345, 7, 2024, 1066][h % 6]
                m = 1 + (h >> 8) % 12
                d = 1 + (h >> 16) % (12 if j % 2 == 0 else mdays(y, m))
                yield {"ymd": [y, m, d], "sep": SEPS[(h >> 24) % 4], "locale": locale, "lang": lang,
                       "plo": [None, True, False][(h >> 28) % 3], "order": None,
                       "written": [None, None, "DMY", "MDY"][(h >> 32) % 4], "hm": None if (h >> 36) % 3 else [14, 5]}
    return it


def _grid_a(ctx):
    """thorough: 6 orders x 4 separators x all (m, d) x 40 years x 2 suffixes."""
    years = [1, 5, 12, 31, 99, 100, 230, 365, 999, 1000, 1066, 1100, 1200, 1400, 1582, 1600, 1776, 1900, 1969, 1970,
             1999, 2000, 2001, 2012, 2015, 2020, 2024, 2038, 2068, 2069, 2100, 2400, 3000, 5000, 9998, 9999, 500, 930, 430, 330]

    def it(shard, nshards):
        i = 0
        for order in ORDERS:
            for sep in SEPS:
                for y in years:
                    i += 1
                    if i % nshards != shard:
                        continue
                    for m in range(1, 13):
                        for d in range(1, mdays(y, m) + 1):
                            for hm in (None, [9, 41]):
                                yield {"ymd": [y, m, d], "sep": sep, "locale": "en", "lang": "en", "plo": None,
                                       "order": order, "written": None, "hm": hm}
    return it


def stages(ctx):
    out = [Stage("explicit_order", "hyp", strategy=part_a(), examples=ctx.n(24000, 150000)),
           Stage("locale_order", "hyp", strategy=part_b(), examples=ctx.n(8000, 100000)),
           Stage("locale_walk", "enum", cases=_locale_walk(ctx), exhaustive=False)]
    if not ctx.quick:
        out.append(Stage("explicit_grid", "enum", cases=_grid_a(ctx), exhaustive=True))
    return out
