"""C12 — timezone settings preserve the instant; awareness follows the setting (DESIGN.md §4 C12)."""
import datetime as dt
import json
import os
import subprocess
import sys

import pytz
from hypothesis import strategies as st

from dateparser.date import DateDataParser
from vlib import clock, gen, tz as vtz
from vlib.runner import REPO, VERIF, Stage, derive_seed

ID = "C12"
RULE = ("Hypothesis draws an ordered pair (A, B) from pytz.common_timezones u library abbreviations u offsets (names that both "
        "pytz and the library table resolve are left out), a local datetime 1950..2037 that pytz reports as neither ambiguous "
        "nor non-existent in A (days around A's and B's DST transitions and half-hour zones over-weighted), a parser kind "
        "{absolute string, custom format, 10/13-digit timestamp, relative 'now' with RELATIVE_BASE}, RETURN_AS_TIMEZONE_AWARE "
        "in {True, False, unset}, optionally a zone written in the string. Oracle: pytz used directly "
        "(A.localize(d, is_dst=None).astimezone(B)): wall clock and, when aware, utcoffset must match; True => aware, False => "
        "naive, unset => aware iff the string named a zone. TIMEZONE='local' is run in child interpreters started with TZ in "
        "{UTC, America/New_York, Asia/Kolkata, Australia/Lord_Howe, Pacific/Apia}. Two enumerated stages: every table "
        "abbreviation written in the string and given as TO_TIMEZONE/TIMEZONE (identity), and every (IANA zone, abbreviation that "
        "zone itself uses and the table also lists) pair in both directions. Non-trivial = A and B have different offsets "
        "at that instant; distinct on (A, B, parser kind, awareness, own zone?).")
ASSUMPTIONS = ["pytz is the reference for zone arithmetic", "names resolvable by both pytz and the library's table (EST, CET, ...) are excluded from the pools",
               "relative kind uses a zero delta so no wall-clock arithmetic across DST is involved"]
ESSENTIAL = ["kind:absolute", "kind:format", "kind:timestamp", "kind:relative", "aware:True", "aware:False", "aware:unset",
             "own-zone", "dst-adjacent", "half-hour-zone", "pair:differ", "own-abbreviation-pair"]

KINDS = ["absolute", "format", "timestamp", "relative"]
_pool = []


def pool():
    if not _pool:
        dual = vtz.dual_names()
        offs, abbrs, conflicts = vtz.source_tables()
        _pool.extend(pytz.common_timezones)
        ab = [a for a in sorted(abbrs) if a not in dual and a not in conflicts and a.isascii() and a.upper() == a and len(a) >= 3]
        _pool.extend(ab)
        _pool.extend(["+05:30", "-0800", "UTC+3", "GMT-2", "UTC+14:00", "UTC-12:00", "+0000", "UTC+05:45", "-03:30", "+1245"
                      if False else "+12:45", "UTC+09:30"])
        for z in ("UTC", "GMT"):
            if z in _pool:
                pass
    return _pool


HALF = ["Asia/Kolkata", "Asia/Kathmandu", "Australia/Lord_Howe", "America/St_Johns", "Australia/Adelaide", "Asia/Tehran",
        "Pacific/Chatham", "Asia/Yangon", "Pacific/Marquesas", "+05:30", "-03:30", "UTC+05:45", "UTC+09:30"]


def offset_of(z, aware):
    return aware.utcoffset()


def expected(case):
    """-> (wall naive datetime, utcoffset timedelta of the target zone at that instant, source offset)"""
    d = gen.to_dt(case["local"])
    A, B, own = case["A"], case["B"], case["own"]
    if own is not None and case["kind"] == "relative":
        # a relative phrase that names a zone: the reference time (RELATIVE_BASE, a wall clock in TIMEZONE — or in the
        # string's own zone when TIMEZONE is 'local') is the instant; it is expressed in the string's zone, then TO_TIMEZONE
        src = dt.timezone(dt.timedelta(seconds=own[1]))
        if A:
            inst = vtz.localize(vtz.oracle_tz(A), d)
        else:
            inst = d.replace(tzinfo=src)
        res = inst.astimezone(vtz.oracle_tz(B)) if B else inst.astimezone(src)
        return res.replace(tzinfo=None), res.utcoffset(), inst.utcoffset()
    if own is not None:
        src = dt.timezone(dt.timedelta(seconds=own[1]))
        inst = d.replace(tzinfo=src)
    else:
        zA = vtz.oracle_tz(A) if A else _local_tz(case)
        inst = vtz.localize(zA, d)
    target = B or (A if own is not None and A else None)
    if target:
        res = inst.astimezone(vtz.oracle_tz(target))
    else:
        res = inst
    return res.replace(tzinfo=None), res.utcoffset(), inst.utcoffset()


def _local_tz(case):
    return pytz.timezone(case.get("env_tz") or "UTC")


def build(case):
    d = gen.to_dt(case["local"])
    kind = case["kind"]
    iso = "%04d-%02d-%02d %02d:%02d:%02d" % tuple(case["local"][:6])
    formats = None
    settings = {}
    if case["A"]:
        settings["TIMEZONE"] = case["A"]
    if case["B"]:
        settings["TO_TIMEZONE"] = case["B"]
    if case["aware"] is not None:
        settings["RETURN_AS_TIMEZONE_AWARE"] = case["aware"]
    if kind == "absolute":
        s = iso + ((" " + case["own"][0]) if case["own"] else "")
    elif kind == "format":
        s, formats = iso, ["%Y-%m-%d %H:%M:%S"]
    elif kind == "timestamp":
        zA = vtz.oracle_tz(case["A"]) if case["A"] else _local_tz(case)
        inst = vtz.localize(zA, d)
        n = int((inst - dt.datetime(1970, 1, 1, tzinfo=dt.timezone.utc)).total_seconds())
        s = str(n) + ("000" if case.get("ms") else "")
    else:
        s = "now" + ((" " + case["own"][0]) if case["own"] else "")
        settings["RELATIVE_BASE"] = d
    return s, formats, settings


def evaluate(case):
    """Runs the parse; returns (got, want_wall, want_off, src_off, s, settings)."""
    s, formats, settings = build(case)
    want_wall, want_off, src_off = expected(case)
    dd = DateDataParser(languages=["en"], settings=settings or None).get_date_data(s, formats)
    return dd.date_obj, want_wall, want_off, src_off, s, settings


def check_case(case):
    if case.get("env_tz") and os.environ.get("TZ") != case["env_tz"]:
        # a TIMEZONE='local' case belongs to a process whose TZ is that zone (replays and regression cases arrive here in the
        # ordinary TZ=UTC process): evaluate it in a child interpreter started with that TZ
        env = dict(os.environ)
        env["TZ"] = case["env_tz"]
        env["PYTHONPATH"] = "%s:%s" % (REPO, VERIF)
        p = subprocess.run([sys.executable, "-c", "from checks import c12; c12._child_main()"], input=json.dumps([case]).encode(),
                           capture_output=True, env=env, cwd=VERIF, timeout=600)
        if p.returncode != 0:
            from vlib.runner import HarnessError
            raise HarnessError("child for TZ=%s failed: %s" % (case["env_tz"], p.stderr.decode()[-800:]))
        ok, bucket, detail, skip, cls, key = json.loads(p.stdout)[0]
        r = {"ok": ok, "cls": cls, "key": key}
        if not ok:
            r.update(bucket="local:" + bucket, detail=detail)
        if skip:
            r["skip"] = skip
        return r
    kind = case["kind"]
    cls = ["kind:" + kind, "aware:" + ("unset" if case["aware"] is None else str(case["aware"]))]
    if case["own"]:
        cls.append("own-zone")
    if case.get("dst_adjacent"):
        cls.append("dst-adjacent")
    if case["A"] in HALF or case["B"] in HALF:
        cls.append("half-hour-zone")
    if case.get("env_tz"):
        cls.append("local:" + case["env_tz"])
    if case.get("own_abbr"):
        cls.append("own-abbreviation-pair")
    try:
        got, want_wall, want_off, src_off, s, settings = evaluate(case)
    except (pytz.AmbiguousTimeError, pytz.NonExistentTimeError):
        return {"ok": True, "skip": "local time ambiguous or non-existent in A", "cls": cls}
    differ = want_off != src_off
    if differ:
        cls.append("pair:differ")
    key = (case["A"], case["B"], kind, case["aware"], bool(case["own"]), case.get("env_tz")) if differ else None
    sdesc = {k: (str(v) if isinstance(v, dt.datetime) else v) for k, v in settings.items()}

    def fail(what):
        return {"ok": False, "bucket": "%s:%s%s" % (kind, what, ":own-zone" if case["own"] else ""),
                "detail": "%r settings=%r%s -> %r; expected wall %s offset %s; %s"
                          % (s, sdesc, " TZ=%s" % case["env_tz"] if case.get("env_tz") else "", got, want_wall, want_off, what),
                "key": key, "cls": cls}
    if got is None:
        return fail("none")
    want_aware = case["aware"] if case["aware"] is not None else bool(case["own"])
    if (got.tzinfo is not None) != want_aware:
        return fail("awareness")
    if got.replace(tzinfo=None) != want_wall:
        return fail("wall-clock")
    if got.tzinfo is not None and got.utcoffset() != want_off:
        return fail("utcoffset")
    return {"ok": True, "key": key, "cls": cls}


def _transitions(zname):
    try:
        z = pytz.timezone(zname)
    except Exception:
        return []
    tt = getattr(z, "_utc_transition_times", None) or []
    return [t for t in tt if 1950 <= t.year <= 2037]


@st.composite
def cases(draw, env_tz=None):
    P = pool()
    pick = st.one_of(st.sampled_from(P), st.sampled_from(HALF), st.sampled_from(vtz.TZ_POOL_SMALL[:9]))
    A = None if env_tz else draw(st.one_of(st.none(), pick, pick, pick))
    B = draw(st.one_of(st.none(), pick, pick))
    kind = draw(st.sampled_from(KINDS))
    aware = draw(st.sampled_from([None, True, False]))
    own = None
    if kind in ("absolute", "relative") and draw(st.integers(0, 2)) == 0 and not (kind == "relative" and env_tz):
        own = draw(st.sampled_from([["+05:30", 19800], ["-0800", -28800], ["UTC+3", 10800], ["PST", -28800], ["AEST", 36000],
                                    ["UTC", 0], ["GMT-2", -7200], ["UTC+14:00", 50400], ["+09:30", 34200]]))
    d = draw(gen.datetimes(1950, 2037, us=False))
    dst_adj = False
    if draw(st.integers(0, 2)) == 0:
        tt = _transitions(A or env_tz or "UTC") + (_transitions(B) if B else [])
        if tt:
            t = draw(st.sampled_from(tt))
            delta = draw(st.sampled_from([-36, -25, -13, -3, -2, 2, 3, 13, 25, 36]))
            t2 = t + dt.timedelta(hours=delta, minutes=draw(st.sampled_from([0, 29, 30, 59])))
            if 1950 <= t2.year <= 2037:
                d = gen.from_dt(t2)
                d[6] = 0
                dst_adj = True
    if kind == "timestamp" and d[0] < 2002:
        d[0] = 2002 + d[0] % 36
        d[2] = min(d[2], 28)
        dst_adj = False
    c = {"A": A, "B": B, "kind": kind, "aware": aware, "own": own, "local": d, "dst_adjacent": dst_adj,
         "ms": draw(st.booleans()) if kind == "timestamp" else False}
    if env_tz:
        c["env_tz"] = env_tz
    return c


def _pair_grid(ctx):
    """thorough: all ordered pairs of a 60-zone representative set x 12 instants."""
    reps = (HALF[:9] + ["UTC", "America/New_York", "America/Los_Angeles", "America/Sao_Paulo", "Europe/London", "Europe/Paris",
                        "Europe/Moscow", "Africa/Cairo", "Africa/Johannesburg", "Asia/Tokyo", "Asia/Shanghai", "Asia/Dubai",
                        "Australia/Sydney", "Pacific/Auckland", "Pacific/Apia", "Pacific/Kiritimati", "Pacific/Honolulu",
                        "America/Anchorage", "America/Caracas", "America/Halifax", "Atlantic/Azores", "Asia/Kabul",
                        "Asia/Dhaka", "Asia/Jakarta", "Asia/Seoul", "Europe/Istanbul", "Europe/Lisbon", "America/Mexico_City",
                        "America/Bogota", "America/Santiago", "Africa/Lagos", "Africa/Nairobi", "Asia/Karachi", "Asia/Colombo",
                        "Asia/Hong_Kong", "Australia/Perth", "Australia/Darwin", "Pacific/Fiji", "Pacific/Tongatapu",
                        "PST", "AEST", "IST", "+05:30", "-0800", "UTC+3", "GMT-2", "UTC+14:00", "UTC-12:00", "-03:30", "UTC+09:30",
                        "Antarctica/Troll"])[:60]
    instants = [[1950, 1, 1, 0, 0, 0, 0], [1969, 12, 31, 23, 59, 59, 0], [1985, 6, 15, 12, 0, 0, 0], [1999, 12, 31, 23, 0, 0, 0],
                [2004, 2, 29, 6, 30, 0, 0], [2011, 12, 30, 10, 0, 0, 0], [2016, 7, 1, 0, 0, 0, 0], [2020, 3, 8, 12, 0, 0, 0],
                [2021, 10, 31, 12, 0, 0, 0], [2030, 1, 15, 18, 45, 0, 0], [2037, 12, 31, 23, 59, 59, 0], [2002, 9, 9, 1, 46, 40, 0]]

    def it(shard, nshards):
        i = 0
        for a in reps:
            for b in reps:
                i += 1
                if i % nshards != shard:
                    continue
                for j, t in enumerate(instants):
                    kind = KINDS[(i + j) % 4]
                    if kind == "timestamp" and t[0] < 2002:
                        kind = "absolute"
                    yield {"A": a, "B": b, "kind": kind, "aware": [None, True, False][(i + j) % 3], "own": None, "local": t,
                           "dst_adjacent": False, "ms": False}
    return it


def check_identity(case):
    """The same abbreviation written in the string and given as TO_TIMEZONE (or TIMEZONE) must mean the same offset: the
    wall clock comes back unchanged.  Covers every abbreviation of the table, including names listed with several offsets."""
    name, role = case["name"], case["role"]
    d = gen.to_dt(case["local"])
    s = "%04d-%02d-%02d %02d:%02d:%02d %s" % (d.year, d.month, d.day, d.hour, d.minute, d.second, name)
    settings = {role: name}
    if case["aware"] is not None:
        settings["RETURN_AS_TIMEZONE_AWARE"] = case["aware"]
    cls = ["identity", "identity:" + role]
    got = DateDataParser(languages=["en"], settings=settings).get_date_data(s).date_obj
    key = ("identity", name, role)
    if got is None:
        return {"ok": True, "skip": "the abbreviation is not understood in this string (C11's subject)", "cls": cls}
    if got.replace(tzinfo=None) != d:
        return {"ok": False, "bucket": "identity:%s:%s" % (role, name), "detail": "%r with %r -> %r: the same zone name means two different offsets"
                % (s, settings, got), "key": key, "cls": cls}
    return {"ok": True, "key": key, "cls": cls}


def _identity_cases(ctx):
    def it(shard, nshards):
        offs, abbrs, conflicts = vtz.source_tables()
        names = sorted(n for n in abbrs if n.isascii())
        for i, n in enumerate(names):
            if i % nshards != shard:
                continue
            for role in ("TO_TIMEZONE", "TIMEZONE"):
                h = derive_seed(ctx.seed, n, role)
                yield {"name": n, "role": role, "aware": [None, True, False][h % 3],
                       "local": [1975 + h % 50, 1 + (h >> 8) % 12, 1 + (h >> 16) % 28, (h >> 24) % 24, (h >> 32) % 60, 0, 0]}
    return it


_own_abbr = []


def own_abbreviation_pairs():
    """[(IANA zone Z, abbreviation N, local wall clock)]: N is what Z itself calls its time at that moment *and* a name of the
    library's table (with one listed offset, unknown to pytz) — e.g. Asia/Shanghai + CST, Europe/London + BST.  The table's N
    usually is another zone altogether, so the pair is an ordinary pair of the quantifier whose two names happen to coincide."""
    if not _own_abbr:
        dual = vtz.dual_names()
        _, abbrs, conflicts = vtz.source_tables()
        usable = {a for a in abbrs if a not in dual and a not in conflicts and a.isascii()}
        for zname in pytz.common_timezones:
            z = pytz.timezone(zname)
            tt = getattr(z, "_utc_transition_times", None)
            seen = set()
            if not tt:
                n = z.tzname(dt.datetime(2000, 1, 1))
                if n in usable:
                    _own_abbr.append((zname, n, [2000, 1, 1, 12, 0, 0, 0]))
                continue
            for i, t in enumerate(tt):
                if not 1950 <= t.year <= 2036:
                    continue
                n = z._transition_info[i][2]
                if n not in usable or n in seen:
                    continue
                nxt = tt[i + 1] if i + 1 < len(tt) else t + dt.timedelta(days=90)
                mid = t + (nxt - t) / 2 if nxt - t < dt.timedelta(days=300) else t + dt.timedelta(days=40)
                loc = pytz.utc.localize(mid.replace(microsecond=0)).astimezone(z)
                if loc.tzname() != n or not 1950 <= loc.year <= 2037:
                    continue
                seen.add(n)
                _own_abbr.append((zname, n, [loc.year, loc.month, loc.day, loc.hour, loc.minute, loc.second, 0]))
    return _own_abbr


def _own_abbr_cases(ctx):
    def it(shard, nshards):
        for i, (z, n, local) in enumerate(own_abbreviation_pairs()):
            if i % nshards != shard:
                continue
            for j, kind in enumerate(KINDS):
                if kind == "timestamp" and local[0] < 2002:
                    continue
                h = derive_seed(ctx.seed, z, n, kind)
                for A, B in ((z, n), (n, z)):
                    yield {"A": A, "B": B, "kind": kind, "aware": [None, True, False][(h + (A == z)) % 3], "own": None,
                           "local": local, "dst_adjacent": False, "ms": False, "own_abbr": True}
    return it


def stages(ctx):
    out = [Stage("same_name_identity", "enum", cases=_identity_cases(ctx), exhaustive=True, check=check_identity),
           Stage("own_abbreviation_pairs", "enum", cases=_own_abbr_cases(ctx), exhaustive=True),
           Stage("pairs", "hyp", strategy=cases(), examples=ctx.n(40000, 600000))]
    if not ctx.quick:
        out.append(Stage("pair_grid", "enum", cases=_pair_grid(ctx), exhaustive=True))
    return out


# -- TIMEZONE='local' under different process zones (child interpreters) ------------------------------

ENV_TZS = ["UTC", "America/New_York", "Asia/Kolkata", "Australia/Lord_Howe", "Pacific/Apia"]


def _child_main():
    """stdin: JSON list of cases; stdout: JSON list of [ok, bucket, detail]."""
    cs = json.load(sys.stdin)
    out = []
    for c in cs:
        r = check_case(c)
        out.append([r["ok"], r.get("bucket"), r.get("detail"), r.get("skip"), list(r.get("cls", [])),
                    repr(r.get("key")) if r.get("key") is not None else None])
    json.dump(out, sys.stdout)


def extra_phase(ctx, known, total):
    import hypothesis
    from hypothesis import HealthCheck, given, settings
    info = {"local_zone_cases": 0, "per_TZ": {}}
    per = ctx.n(150, 3000)
    procs = []
    for tzname in ENV_TZS:
        batch = []

        @settings(max_examples=per, database=None, deadline=None, suppress_health_check=list(HealthCheck),
                  phases=[hypothesis.Phase.generate], verbosity=hypothesis.Verbosity.quiet)
        @hypothesis.seed(derive_seed(ctx.seed, "local", tzname))
        @given(cases(env_tz=tzname))
        def collect(c):
            batch.append(c)
        collect()
        env = dict(os.environ)
        env["TZ"] = tzname
        env["PYTHONPATH"] = "%s:%s" % (REPO, VERIF)
        p = subprocess.Popen([sys.executable, "-c", "from checks import c12; c12._child_main()"], stdin=subprocess.PIPE,
                             stdout=subprocess.PIPE, stderr=subprocess.PIPE, env=env, cwd=VERIF)
        procs.append((tzname, batch, p, json.dumps(batch)))
    for tzname, batch, p, payload in procs:
        o, e = p.communicate(payload.encode(), timeout=1800)
        if p.returncode != 0:
            from vlib.runner import HarnessError
            raise HarnessError("child for TZ=%s failed: %s" % (tzname, e.decode()[-1500:]))
        res = json.loads(o)
        nfail = 0
        for c, (ok, bucket, detail, skip, cls, key) in zip(batch, res):
            total.evaluations += 1
            info["local_zone_cases"] += 1
            for k in cls:
                total.classes[k] += 1
            if skip:
                total.skips[skip] += 1
            if key:
                from vlib.runner import khash
                total.keys.add(khash(key))
            if not ok:
                nfail += 1
                b = "local:" + bucket
                if known.is_known(b):
                    total.excluded[b] += 1
                else:
                    total.failures.setdefault(b, (c, detail))
        info["per_TZ"][tzname] = {"cases": len(batch), "failures": nfail}
        if batch:
            info.setdefault("samples", []).append(batch[0])
    return info
