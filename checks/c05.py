"""C05 — every locale's month and weekday names resolve to their meaning (DESIGN.md §4 C05)."""
import datetime as dt
import re

from hypothesis import strategies as st

from dateparser.date import DateDataParser
from vlib import clock, data
from vlib.runner import Stage, derive_seed

ID = "C05"
RULE = ("Complete walk of the vocabulary tables of the tree under test: every locale code (205 languages + "
        "299 regional locales) x NORMALIZE on/off x SKIP_TOKENS default/[] x every month/weekday spelling that "
        "the locale's overlaid vocabulary lists under exactly one key (single meaning: not also a unit, ago/in, "
        "am/pm, skip/pertain word, relative phrase, relative pattern match or fixed parser token), as written "
        "and lower-cased. Months: 'D <name> YYYY' must give datetime(YYYY, month, D); weekdays: the bare name "
        "under a frozen clock on day 8..24 of a month must give the unique date in [ref-6, ref] with that "
        "weekday at 00:00. D, YYYY and the reference date are derived from (VERIF_SEED, locale, name) in the "
        "walk and drawn by Hypothesis in the sampling stage. Every case is non-trivial; distinct = distinct "
        "(locale, NORMALIZE, skip mode, key, name).")
ASSUMPTIONS = ["the meaning of a name is the key the data module lists it under (harness-side overlay of locale_specific)",
               "names equal to a default SKIP_TOKENS entry are excluded under the default setting (documented setting)",
               "weekday references stay on days 8..24 so the 7-day window does not cross a month (that is C09's subject)"]
ESSENTIAL = ["kind:month", "kind:weekday", "norm:on", "norm:off", "regional", "diacritics"]

YEARS = [1987, 1995, 2003, 2012, 2024, 1900, 2099]
DEFAULT_SKIP = ["t"]

_parsers = {}


def _parser(locale, lang, normalize, skip_default):
    k = (locale, normalize, skip_default)
    p = _parsers.get(k)
    if p is None:
        s = {"NORMALIZE": normalize}
        if not skip_default:
            s["SKIP_TOKENS"] = []
        if locale == lang:
            p = DateDataParser(languages=[lang], settings=s)
        else:
            p = DateDataParser(locales=[locale], settings=s)
        _parsers[k] = p
        if len(_parsers) > 400:
            _parsers.pop(next(iter(_parsers)))
    return p


_tables = {}


def names_for(locale, normalize, skip_default):
    """[(key, name)] single-meaning month/weekday names of the locale."""
    k = (locale, normalize, skip_default)
    if k in _tables:
        return _tables[k]
    inf = data.info(locale)
    # single meaning = the spelling as listed (lower-cased) appears under exactly one vocabulary key.  Under NORMALIZE the
    # library strips accents/marks from its own copy of the vocabulary; listed words whose stripped forms collide with
    # another listed word are still tested (class 'norm-collision'): the vocabulary lists each of them once.
    voc = data.vocabulary(inf, False)
    vocn = data.vocabulary(inf, True) if normalize else None
    pats = []
    for _, p in data.relative_patterns(inf):
        try:
            pats.append(re.compile("^(?:%s)$" % (data.nfkd(p) if normalize else p), re.I | re.U))
        except re.error:
            pass
    out = []
    excluded = 0
    for key in data.MONTHS + data.WEEKDAYS:
        seen = set()
        for name in inf.get(key, []):
            w = name.lower()
            if w in seen:
                continue
            seen.add(w)
            if voc.get(w, set()) != {key}:
                excluded += 1
                continue
            if skip_default and w in DEFAULT_SKIP:
                excluded += 1
                continue
            if any(p.match(w) for p in pats) or any(p.match(name) for p in pats):
                excluded += 1
                continue
            if not name.strip() or name.strip() != name:
                excluded += 1
                continue
            out.append((key, name))
    _tables[k] = out
    return out


def _norm_name(name):
    return data.nfkd(name.lower())


def check_case(case):
    locale, lang, normalize, skip_default = case["locale"], case["lang"], case["norm"], case["skipdef"]
    key, name, variant = case["key"], case["name"], case["variant"]
    spelled = name if variant == "asis" else name.lower()
    cls = ["norm:on" if normalize else "norm:off", "skip:default" if skip_default else "skip:none",
           "variant:" + variant]
    if locale != lang:
        cls.append("regional")
    if data.nfkd(name) != name:
        cls.append("diacritics")
    if any(ch.isdigit() for ch in name):
        cls.append("has-digit")
    if normalize and data.vocabulary(data.info(locale), True).get(data.nfkd(name.lower())) != {key}:
        cls.append("norm-collision")
    if " " in name:
        cls.append("has-space")
    if re.search(r"[^\w\s]", name, re.U):
        cls.append("has-punct")
    p = _parser(locale, lang, normalize, skip_default)
    dkey = (locale, normalize, skip_default, key, spelled)
    if key in data.MONTHS:
        cls.append("kind:month")
        y, d = case["year"], case["day"]
        s = "%d %s %d" % (d, spelled, y)
        want = dt.datetime(y, data.MONTHS.index(key) + 1, d)
        clock.freeze(dt.datetime(2020, 6, 15, 12, 0))
        got = p.get_date_data(s).date_obj
    else:
        cls.append("kind:weekday")
        ref = dt.datetime(*case["ref"])
        clock.freeze(ref)
        s = spelled
        wd = data.WEEKDAYS.index(key)
        want = None
        for back in range(7):
            c = ref - dt.timedelta(days=back)
            if c.weekday() == wd:
                want = dt.datetime(c.year, c.month, c.day)
        got = p.get_date_data(s).date_obj
    clock.freeze(None)
    if got != want:
        return {"ok": False, "bucket": "%s|%s|%s" % (lang, key, _norm_name(name)),
                "detail": "locale=%s NORMALIZE=%s skip_default=%s: %r -> %r, expected %r (listed under %r)"
                          % (locale, normalize, skip_default, s, got, want, key),
                "key": dkey, "cls": cls}
    return {"ok": True, "key": dkey, "cls": cls}


def _mk(seed, locale, lang, normalize, skipdef, key, name, variant):
    h = derive_seed(seed, locale, name, normalize, skipdef, variant)
    y = YEARS[h % len(YEARS)]
    d = 1 + (h >> 8) % 28
    m = 1 + (h >> 16) % 12
    rd = 8 + (h >> 24) % 17
    return {"locale": locale, "lang": lang, "norm": normalize, "skipdef": skipdef, "key": key, "name": name,
            "variant": variant, "year": y, "day": d, "ref": [y, m, rd, (h >> 32) % 24, (h >> 40) % 60, 0, 0]}


def _walk(ctx):
    def cases(shard, nshards):
        locs = data.all_locales()
        # a language and its regional locales are walked in the same worker process (they share per-language caches),
        # the base language first for half of the languages and last for the other half
        order = data.language_order()
        for i, (locale, lang) in enumerate(_grouped_locales(ctx.seed)):
            if order.index(lang) % nshards != shard:
                continue
            regional = locale != lang
            if ctx.quick and regional and derive_seed(ctx.seed, "pick", locale) % 5 != 0:
                # quick: every language, a seeded 20% of regional locales (+ all that add names, below)
                spec = data.raw_info(lang).get("locale_specific", {}).get(locale, {})
                if not any(k in spec for k in data.MONTHS + data.WEEKDAYS):
                    continue
            for normalize in (True, False):
                for skipdef in (True, False):
                    if ctx.quick and not skipdef and regional:
                        continue
                    for key, name in names_for(locale, normalize, skipdef):
                        variants = ["asis"] + (["lower"] if name.lower() != name else [])
                        for v in variants:
                            yield _mk(ctx.seed, locale, lang, normalize, skipdef, key, name, v)
                            if not ctx.quick:
                                yield _mk(ctx.seed + 7919, locale, lang, normalize, skipdef, key, name, v)
                                yield _mk(ctx.seed + 104729, locale, lang, normalize, skipdef, key, name, v)
    return cases


@st.composite
def sampled(draw):
    locs = data.all_locales()
    locale, lang = draw(st.sampled_from(locs))
    normalize = draw(st.booleans())
    skipdef = draw(st.booleans())
    names = names_for(locale, normalize, skipdef)
    key, name = draw(st.sampled_from(names))
    y = draw(st.one_of(st.sampled_from(YEARS), st.integers(1000, 9999)))
    m = draw(st.integers(1, 12))
    return {"locale": locale, "lang": lang, "norm": normalize, "skipdef": skipdef, "key": key, "name": name,
            "variant": draw(st.sampled_from(["asis", "lower"])), "year": y, "day": draw(st.integers(1, 28)),
            "ref": [y, m, draw(st.integers(8, 24)), draw(st.integers(0, 23)), draw(st.integers(0, 59)), 0, 0]}


def _grouped_locales(seed):
    out = []
    lld = data.language_locale_dict()
    for lang in data.language_order():
        regional = [(loc, lang) for loc in lld.get(lang, [])]
        if derive_seed(seed, "base-first", lang) % 2:
            out.extend([(lang, lang)] + regional)
        else:
            out.extend(regional + [(lang, lang)])
    return out


def stages(ctx):
    return [Stage("table_walk", "enum", cases=_walk(ctx), exhaustive=not ctx.quick),
            Stage("sampled", "hyp", strategy=sampled(), examples=ctx.n(6000, 60000))]
