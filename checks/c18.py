"""C18 — whitespace noise and the digit script never change what a string parses to (DESIGN.md §4 C18)."""
import datetime as dt
import json
import os
import sys
import unicodedata

from hypothesis import strategies as st

from dateparser.date import DateDataParser
from vlib import clock, data, gen
from vlib.runner import VERIF, Stage, derive_seed

ID = "C18"
RULE = ("Hypothesis draws a string of the multilingual corpus, or a generated date in a drawn language (named and numeric "
        "forms), whose base parse under a frozen clock is non-None (language: the corpus locale's language, or autodetect for a "
        "quarter of the cases), and a rewriting: whitespace family {pad, double, tab, newline, NBSP, mixed runs, leading/"
        "trailing newlines, trailing colon} or digit family {every Unicode block of decimal digits (Nd), enumerated from "
        "unicodedata at run time, substituted for the ASCII digits}. Oracle (metamorphic): (date_obj, period) of the rewritten "
        "string equals the base result. Non-trivial = the string has an inner space (whitespace family) / an ASCII digit "
        "(digit family); distinct on (string, rewriting).")
ASSUMPTIONS = ["process TZ=UTC, frozen clock", "the base string is parsed with the same parser instance and settings as the rewritten one"]
ESSENTIAL = ["ws:pad", "ws:tab", "ws:newline", "ws:nbsp", "ws:colon", "digits", "digits:dot-after-digit", "src:corpus", "src:generated",
             "lang:auto"]

NOW = dt.datetime(2015, 6, 15, 10, 30)
_corpus = []


def corpus():
    if not _corpus:
        with open(os.path.join(VERIF, "corpus", "strings.json")) as f:
            _corpus.extend(json.load(f))
    return _corpus


_blocks = []


def digit_blocks():
    """[(name, zero codepoint)] for every run of 10 consecutive Nd characters with values 0..9."""
    if not _blocks:
        cp = 0
        while cp < sys.maxunicode:
            ch = chr(cp)
            if unicodedata.category(ch) == "Nd" and unicodedata.digit(ch, -1) == 0:
                if all(unicodedata.category(chr(cp + i)) == "Nd" and unicodedata.digit(chr(cp + i), -1) == i for i in range(10)):
                    if cp != 0x30:
                        _blocks.append((unicodedata.name(ch, "U+%04X" % cp).replace(" DIGIT ZERO", "").replace("DIGIT ZERO", "ASCII"), cp))
                    cp += 10
                    continue
            cp += 1
    return _blocks


WS = ["pad", "double", "tab", "newline", "nbsp", "mixed", "lead-trail-nl", "colon", "pad+colon"]


def rewrite_ws(s, how):
    core = s.strip()
    if how == "pad":
        return "   " + core + "  "
    if how == "double":
        return core.replace(" ", "  ")
    if how == "tab":
        return core.replace(" ", "\t")
    if how == "newline":
        return core.replace(" ", "\n")
    if how == "nbsp":
        return core.replace(" ", "\xa0")
    if how == "mixed":
        return core.replace(" ", " \t \xa0\n ")
    if how == "lead-trail-nl":
        return "\n\n" + core + "\n"
    if how == "colon":
        return core + ":"
    if how == "pad+colon":
        return "  " + core + ":  "
    raise ValueError(how)


def rewrite_digits(s, zero):
    return "".join(chr(zero + ord(c) - 48) if "0" <= c <= "9" else c for c in s)


_P = {}


def _parser(lang):
    if lang not in _P:
        _P[lang] = DateDataParser(languages=[lang]) if lang else DateDataParser()
    return _P[lang]


def check_case(case):
    s, lang = case["s"], case["lang"]
    fam, how = case["family"], case["how"]
    cls = ["src:" + case["src"], "lang:" + ("auto" if lang is None else "fixed")]
    p = _parser(lang)
    clock.freeze(NOW)
    try:
        base = p.get_date_data(s)
        if base.date_obj is None:
            return {"ok": True, "skip": "base string does not parse", "cls": cls}
        if fam == "ws":
            cls.append("ws:" + ("colon" if "colon" in how else how))
            t = rewrite_ws(s, how)
            nontrivial = (" " in s.strip()) or how in ("pad", "colon", "pad+colon", "lead-trail-nl")
        else:
            name, zero = how
            cls.append("digits")
            if not any("0" <= c <= "9" for c in s):
                return {"ok": True, "skip": "no ASCII digit in the string", "cls": cls}
            t = rewrite_digits(s, zero)
            nontrivial = True
            import re
            if re.search(r"[0-9]\.", s):
                cls.append("digits:dot-after-digit")
            if re.search(r"[+-][0-9]{2}:?[0-9]{2}\b|(?:UTC|GMT)[+-][0-9]", s):
                cls.append("digits:in-utc-offset")
        got = p.get_date_data(t)
    finally:
        clock.freeze(None)
    key = (s, fam, how if fam == "ws" else how[0]) if nontrivial else None
    if (got.date_obj, got.period) != (base.date_obj, base.period):
        if fam == "ws":
            b = "ws:" + how
        else:
            b = "digits:" + ("in-utc-offset" if "digits:in-utc-offset" in cls else "dot-after-digit" if "digits:dot-after-digit" in cls else "other")
        return {"ok": False, "bucket": b, "detail": "%r (lang=%s) -> (%r, %r) but rewritten %r [%s] -> (%r, %r)"
                % (s, lang, base.date_obj, base.period, t, how if fam == "ws" else how[0], got.date_obj, got.period),
                "key": key, "cls": cls}
    return {"ok": True, "key": key, "cls": cls}


MONTHS_EN = ["January", "February", "March", "April", "May", "June", "July", "August", "September", "October",
             "November", "December"]


@st.composite
def source_strings(draw):
    if draw(st.integers(0, 2)) > 0:
        e = draw(st.sampled_from(corpus()))
        lang = e["locale"] if e["locale"] in data.language_order() else e["locale"].rsplit("-", 1)[0]
        return e["s"], lang, "corpus"
    from checks import c10
    langs = data.language_order()
    lang = draw(st.one_of(st.sampled_from(langs[:30]), st.sampled_from(langs)))
    ms, ws = c10.lang_names(lang)
    y, m, d = draw(st.integers(1900, 2100)), draw(st.integers(1, 12)), draw(st.integers(1, 28))
    H, M = draw(st.integers(0, 23)), draw(st.integers(0, 59))
    form = draw(st.integers(0, 9))
    if form >= 7:
        # shapes that the language-specific sanitizers of sanitize_date rewrite (Croatian 'd. m. yyyy. u', Russian 'г.')
        k = draw(st.integers(0, 6))
        if k == 4:
            return "%d мая %d г." % (d, y), "ru", "generated"      # ends in the year marker the sanitizer blanks out
        if k == 5:
            return "%d. %d. %d." % (d, m, y), draw(st.sampled_from(["hr", "sl", "de", "hu"])), "generated"  # ends in a full stop
        if k == 6:
            return "%d января %d г. »" % (d, y), "ru", "generated"  # ends in a skipped character
        if k == 0:
            return "%02d. %02d. %04d. u %02d:%02d" % (d, m, y, H, M), "hr", "generated"
        if k == 1:
            return "%d.%d.%d. u %d:%02d" % (d, m, y, H, M), "hr", "generated"
        if k == 2:
            return "%d января %d г. в %02d:%02d" % (d, y, H, M), "ru", "generated"
        return "%02d.%02d.%04d г., %02d:%02d" % (d, m, y, H, M), "ru", "generated"
    if form == 0 and m in ms:
        s = "%d %s %d" % (d, draw(st.sampled_from(ms[m])), y)
    elif form == 1 and m in ms:
        s = "%d %s %d %02d:%02d" % (d, draw(st.sampled_from(ms[m])), y, H, M)
    elif form == 2:
        s = "%04d-%02d-%02d %02d:%02d:%02d" % (y, m, d, H, M, draw(st.integers(0, 59)))
    elif form == 3:
        s = "%02d.%02d.%04d" % (d if d > 12 else d + 12, m, y)
    elif form == 4:
        s = "%02d/%02d/%04d %02d:%02d" % (m, d if d > 12 else d + 12, y, H, M)
    elif form == 5:
        s = "%04d-%02d-%02d %02d:%02d +05:30" % (y, m, d, H, M)
    else:
        s = "%d.%d.%d %d.%02d" % (d if d > 12 else d + 12, m, y, H, M)
    return s, lang, "generated"


@st.composite
def cases(draw):
    s, lang, src = draw(source_strings())
    if draw(st.integers(0, 3)) == 0:
        lang = None
    if draw(st.booleans()):
        fam, how = "ws", draw(st.sampled_from(WS))
    else:
        b = digit_blocks()
        fam, how = "digits", list(draw(st.one_of(st.sampled_from(b), st.sampled_from(b[:12]))))
    return {"s": s, "lang": lang, "src": src, "family": fam, "how": how}


def _corpus_walk(ctx):
    """corpus x all whitespace rewritings; digit-bearing corpus strings x all Nd blocks (quick: two seeded blocks per string).
    Enumerated rather than drawn: a rewriting that only matters for one shape of string (a number followed by a longer number,
    a string ending in a dot, ...) meets every corpus string of that shape in every run."""
    def it(shard, nshards):
        blocks = digit_blocks()
        for i, e in enumerate(corpus()):
            if i % nshards != shard:
                continue
            lang = e["locale"] if e["locale"] in data.language_order() else e["locale"].rsplit("-", 1)[0]
            for how in WS:
                yield {"s": e["s"], "lang": lang, "src": "corpus", "family": "ws", "how": how}
            if any("0" <= c <= "9" for c in e["s"]):
                bl = blocks
                if ctx.quick:
                    h = derive_seed(ctx.seed, "digits", i)
                    bl = [blocks[h % len(blocks)], blocks[(h >> 16) % 12]]
                for b in bl:
                    yield {"s": e["s"], "lang": lang, "src": "corpus", "family": "digits", "how": list(b)}
    return it


def stages(ctx):
    return [Stage("corpus_walk", "enum", cases=_corpus_walk(ctx), exhaustive=not ctx.quick),
            Stage("rewritings", "hyp", strategy=cases(), examples=ctx.n(14000, 200000))]
