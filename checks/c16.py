"""C16 — shipped generated data equals what its sources define (DESIGN.md §4 C16)."""
import os
import pickle
import shutil
import subprocess
import sys
import tempfile

from hypothesis import strategies as st

from vlib import data
from vlib.runner import REPO, VERIF, HarnessError, Stage

ID = "C16"
RULE = ("Complete enumeration of three finite tables of the tree under test. (a) The repository's own generator "
        "(dateparser_scripts/write_complete_data.py, run from a scratch copy of dateparser_scripts + dateparser_data "
        "with a YAML-1.2 shim for the missing ruamel.yaml) is executed and each produced module is compared byte "
        "for byte with dateparser/data/date_translation_data/<lang>.py; the produced and shipped name sets and the "
        "two __init__.py texts must be equal. (b) build_tz_offsets is run on timezones.timezone_info_list; every "
        "entry (name, pattern, flags, offset) and both search regexes are compared with the unpickled cache file "
        "and with the table a plain import loaded. (c) language_order / language_locale_dict / language_map are "
        "checked against the shipped modules and their locale_specific keys. One obligation per module / table "
        "entry / index entry; all are non-trivial and distinct. Generated part: pop_tz_offset_from_string on "
        "generated date+zone strings gives identical (string, name, offset) with the loaded and the rebuilt table.")
ASSUMPTIONS = ["the vendored PyYAML + YAML-1.2 resolver shim reads the supplementary YAML as ruamel.yaml's RoundTripLoader does "
               "(validated by the byte-for-byte reproduction of all shipped modules on the pinned tree)",
               "the generator script and build_tz_offsets are the definition of 'what the sources define'"]
ESSENTIAL = ["module", "tz-entry", "index"]

_gen = {}


def generated():
    """Run the repo's generator once (in a subprocess: it chdir()s and imports network clients)."""
    if _gen:
        return _gen
    tmp = tempfile.mkdtemp(prefix="c16_")
    try:
        shutil.copytree(os.path.join(REPO, "dateparser_scripts"), os.path.join(tmp, "dateparser_scripts"))
        shutil.copytree(os.path.join(REPO, "dateparser_data"), os.path.join(tmp, "dateparser_data"))
        os.makedirs(os.path.join(tmp, "dateparser", "data", "date_translation_data"))
        code = (
            "import sys, pickle, os\n"
            "sys.path[:0] = [%r, %r]\n"
            "from dateparser_scripts.write_complete_data import write_complete_data\n"
            "res = write_complete_data(in_memory=True)\n"
            "out = {os.path.basename(k): v for k, v in res.items()}\n"
            "out['<data_init>'] = open(%r).read()\n"
            "out['<dtd_init>'] = open(%r).read()\n"
            "sys.stdout.buffer.write(pickle.dumps(out))\n"
        ) % (tmp, os.path.join(VERIF, "vendor"),
             os.path.join(tmp, "dateparser", "data", "__init__.py"),
             os.path.join(tmp, "dateparser", "data", "date_translation_data", "__init__.py"))
        env = dict(os.environ)
        env["PYTHONPATH"] = REPO
        p = subprocess.run([sys.executable, "-c", code], capture_output=True, env=env, cwd=tmp, timeout=600)
        if p.returncode != 0:
            raise HarnessError("generator failed to run:\n" + p.stderr.decode("utf-8", "replace")[-2000:])
        _gen.update(pickle.loads(p.stdout))
    finally:
        shutil.rmtree(tmp, ignore_errors=True)
    return _gen


_tz = {}


def tz_tables():
    if _tz:
        return _tz
    import regex as re
    from dateparser import timezone_parser as tp
    parts = []
    rebuilt = list(tp.build_tz_offsets(parts))
    _tz["rebuilt"] = rebuilt
    _tz["rebuilt_search"] = re.compile("|".join(parts))
    _tz["rebuilt_search_i"] = re.compile("|".join(parts), re.IGNORECASE)
    with open(os.path.join(REPO, "dateparser", "data", "dateparser_tz_cache.pkl"), "rb") as f:
        h, offs, s1, s2 = pickle.load(f)
    _tz["file"] = (offs, s1, s2)
    _tz["loaded"] = (tp._tz_offsets, tp._search_regex, tp._search_regex_ignorecase)
    return _tz


def shipped_modules():
    d = os.path.join(REPO, "dateparser", "data", "date_translation_data")
    return sorted(f for f in os.listdir(d) if f.endswith(".py") and f != "__init__.py")


def _expected_language_map(language_order):
    """what dateparser_scripts/order_languages.generate_language_map derives (re-stated here: importing that script
    changes the working directory and needs network clients): base code -> [base, base-Script, ...] in sorted order"""
    out = {}
    for lang in sorted(language_order):
        if "-" not in lang:
            out[lang] = [lang]
        else:
            out.setdefault(lang.split("-")[0], []).append(lang)
    return out


def _entry(e):
    name, info = e
    return (name, info["regex"].pattern, int(info["regex"].flags), info["offset"])


def check_case(case):
    kind = case["kind"]
    fail = None
    if kind == "module":
        cls = ["module"]
        fn = case["file"]
        g = generated().get(fn)
        path = os.path.join(REPO, "dateparser", "data", "date_translation_data", fn)
        shipped = open(path, "rb").read() if os.path.exists(path) else None
        if g is None:
            fail = "shipped module %s is not produced by the generator" % fn
        elif shipped is None:
            fail = "generator produces %s but it is not shipped" % fn
        elif g != shipped:
            n = next((i for i, (a, b) in enumerate(zip(g, shipped)) if a != b), min(len(g), len(shipped)))
            fail = "module %s differs from generator output at byte %d: shipped %r vs generated %r" % (
                fn, n, shipped[max(0, n - 30):n + 30], g[max(0, n - 30):n + 30])
        bucket = "module:" + fn
    elif kind == "init":
        cls = ["module"]
        which = case["which"]
        rel = "dateparser/data/__init__.py" if which == "<data_init>" else "dateparser/data/date_translation_data/__init__.py"
        if open(os.path.join(REPO, rel)).read() != generated()[which]:
            fail = "%s differs from what the generator writes" % rel
        bucket = "init:" + which
    elif kind == "tz":
        cls = ["tz-entry"]
        t = tz_tables()
        i = case["i"]
        bucket = "tz-entry"
        for label, table in (("cache file", t["file"][0]), ("loaded table", t["loaded"][0])):
            if i >= len(table) or i >= len(t["rebuilt"]):
                fail = "%s has %d entries, rebuilt table has %d" % (label, len(table), len(t["rebuilt"]))
            elif _entry(table[i]) != _entry(t["rebuilt"][i]):
                fail = "%s entry %d = %r, rebuilt from source = %r" % (label, i, _entry(table[i]), _entry(t["rebuilt"][i]))
    elif kind == "tz-global":
        cls = ["tz-entry"]
        t = tz_tables()
        bucket = "tz-global"
        for label, (offs, s1, s2) in (("cache file", t["file"]), ("loaded table", t["loaded"])):
            if len(offs) != len(t["rebuilt"]):
                fail = "%s has %d entries, rebuilt %d" % (label, len(offs), len(t["rebuilt"]))
            elif (s1.pattern, int(s1.flags)) != (t["rebuilt_search"].pattern, int(t["rebuilt_search"].flags)):
                fail = "%s: case-sensitive search regex differs from the rebuilt one" % label
            elif (s2.pattern, int(s2.flags)) != (t["rebuilt_search_i"].pattern, int(t["rebuilt_search_i"].flags)):
                fail = "%s: case-insensitive search regex differs from the rebuilt one" % label
    elif kind == "index":
        cls = ["index"]
        from dateparser.data import languages_info as li
        lang = case["lang"]
        bucket = "index:" + lang
        mods = {f[:-3] for f in shipped_modules()}
        if case.get("global"):
            lo = list(li.language_order)
            if len(lo) != len(set(lo)):
                fail = "language_order has duplicates"
            elif set(lo) != mods:
                fail = "language_order != shipped modules: only in order %s, only shipped %s" % (
                    sorted(set(lo) - mods), sorted(mods - set(lo)))
            elif set(li.language_locale_dict) != mods:
                fail = "language_locale_dict keys != shipped modules: %s" % sorted(set(li.language_locale_dict) ^ mods)
            elif _expected_language_map(lo) != dict(li.language_map):
                exp = _expected_language_map(lo)
                diff = sorted(k for k in set(exp) | set(li.language_map) if exp.get(k) != li.language_map.get(k))
                fail = "language_map differs from what the index generator derives from language_order for keys %s (e.g. %r: shipped %r, derived %r)" % (
                    diff[:8], diff[0], li.language_map.get(diff[0]), exp.get(diff[0]))
            else:
                union = set()
                for k, v in li.language_map.items():
                    if not set(v) <= mods:
                        fail = "language_map[%r] lists unknown languages %s" % (k, sorted(set(v) - mods))
                    union |= set(v)
                if not fail and union != mods:
                    fail = "language_map does not cover %s" % sorted(mods - union)
        else:
            listed = li.language_locale_dict.get(lang)
            if lang not in mods:
                fail = "%s is indexed but has no data module" % lang
            else:
                spec = sorted(data.raw_info(lang).get("locale_specific", {}).keys())
                if listed is None or sorted(listed) != spec or len(listed) != len(set(listed)):
                    fail = "language_locale_dict[%r]=%r but the module defines locales %r" % (lang, listed, spec)
                elif data.raw_info(lang).get("name") != lang:
                    fail = "module %s declares name %r" % (lang, data.raw_info(lang).get("name"))
    else:
        raise HarnessError("unknown case kind %r" % kind)
    if fail:
        return {"ok": False, "bucket": bucket, "detail": fail, "key": (kind, str(case)), "cls": cls}
    return {"ok": True, "key": (kind, str(case)), "cls": cls}


def _obligations():
    out = []
    names = sorted(set(shipped_modules()) | {k for k in generated() if not k.startswith("<")})
    for fn in names:
        out.append({"kind": "module", "file": fn})
    out.append({"kind": "init", "which": "<data_init>"})
    out.append({"kind": "init", "which": "<dtd_init>"})
    t = tz_tables()
    n = max(len(t["rebuilt"]), len(t["file"][0]), len(t["loaded"][0]))
    for i in range(n):
        out.append({"kind": "tz", "i": i})
    out.append({"kind": "tz-global"})
    out.append({"kind": "index", "lang": "*", "global": True})
    from dateparser.data import languages_info as li
    for lang in sorted(set(li.language_order) | set(li.language_locale_dict) | {f[:-3] for f in shipped_modules()}):
        out.append({"kind": "index", "lang": lang})
    return out


# -- generated differential: loaded table vs rebuilt table on pop_tz_offset_from_string ------------

def check_pop(case):
    from dateparser import timezone_parser as tp
    t = tz_tables()
    s = case["s"]
    a = tp.pop_tz_offset_from_string(s)
    saved = (tp._tz_offsets, tp._search_regex, tp._search_regex_ignorecase)
    try:
        tp._tz_offsets, tp._search_regex, tp._search_regex_ignorecase = (
            t["rebuilt"], t["rebuilt_search"], t["rebuilt_search_i"])
        b = tp.pop_tz_offset_from_string(s)
        wb = tp.word_is_tz(case["word"])
    finally:
        tp._tz_offsets, tp._search_regex, tp._search_regex_ignorecase = saved
    wa = tp.word_is_tz(case["word"])

    def norm(r):
        return (r[0], None if r[1] is None else (r[1].tzname(None), r[1].utcoffset(None)))
    cls = ["pop", "pop:hit" if a[1] is not None else "pop:miss"]
    key = ("pop", s) if a[1] is not None else None
    if norm(a) != norm(b) or wa != wb:
        return {"ok": False, "bucket": "pop-differs", "detail": "%r: loaded table -> %r/%r, rebuilt table -> %r/%r"
                % (s, norm(a), wa, norm(b), wb), "key": key, "cls": cls}
    return {"ok": True, "key": key, "cls": cls}


@st.composite
def pop_cases(draw):
    from vlib.tz import source_tables
    offs, abbrs, _ = source_tables()
    body = draw(st.sampled_from(["2015-02-03 14:05", "3 Feb 2015 14:05:09", "Tuesday 5 pm", "12:30", "yesterday 10:00",
                                 "03/02/2015", "1 January 2020 00:00"]))
    kind = draw(st.integers(0, 5))
    if kind == 0:
        z = draw(st.sampled_from(sorted(abbrs)))
        z = draw(st.sampled_from([z, z.lower(), z.title()]))
    elif kind == 1:
        z = draw(st.sampled_from(sorted(offs)))
        z = draw(st.sampled_from([z, z.replace("UTC", "GMT"), z.replace("UTC", ""), z.replace(":", ""),
                                  z.replace("UTC", "").replace(":", "")]))
    elif kind == 2:
        z = "%s%02d%s%02d" % (draw(st.sampled_from("+-")), draw(st.integers(0, 15)), draw(st.sampled_from([":", ""])),
                              draw(st.sampled_from([0, 15, 30, 45])))
        z = draw(st.sampled_from(["", "UTC", "GMT", "utc"])) + z
    elif kind == 3:
        z = draw(st.text(alphabet="ABCDEGMPSTUZ+-:0123", min_size=1, max_size=6))
    elif kind == 4:
        z = "(" + draw(st.sampled_from(sorted(abbrs))) + ")"
    else:
        z = ""
    sep = draw(st.sampled_from([" ", "", " ", ", "]))
    tail = draw(st.sampled_from(["", "", " ", " (EST)", "."]))
    return {"s": body + sep + z + tail, "word": z.strip("()")}


def stages(ctx):
    return [Stage("obligations", "enum", cases=_obligations(), exhaustive=True),
            Stage("pop_differential", "hyp", strategy=pop_cases(), examples=ctx.n(8000, 100000), check=check_pop)]
