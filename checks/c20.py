"""C20 — concurrent calls return what the same calls return sequentially (DESIGN.md §4 C20).

Harness-owned schedule: two real threads.  Call A runs under sys.settrace restricted to files of the
dateparser package; at its k-th executed line the tracer starts thread B and parks A until B has
finished, then A resumes — exactly the schedule class the property quantifies over (one preemption of
A at an executed source line of the library, B to completion; the mirror image is the pair swapped).
Every schedule runs in a forked child, so no schedule inherits state from another."""
import datetime as dt
import os
import pickle
import sys
import threading
import traceback

from hypothesis import strategies as st

from vlib import clock
from vlib.runner import REPO, HarnessError, Stage, derive_seed
from checks import c03

ID = "C20"
RULE = ("Pairs (A, B) from a pool: same configuration; differing only in RELATIVE_BASE / PREFER_* / TIMEZONE; differing in language "
        "and date order (DMY/MDY/YMD and 'tl', which has no order of its own) with ambiguous numeric dates and equal settings dicts; "
        "differing in SKIP_TOKENS / NORMALIZE for the same language; parse vs search_dates; explicit DATE_ORDER vs locale order; a call that ends on an internal "
        "error path (range-end overflow, non-existent day) vs an ordinary call with the same settings dict and another date order. "
        "Schedules: A is preempted at its k-th executed library line, B runs to completion, A resumes; k = the first occurrence of "
        "every distinct (file, line, calling context of depth 3) A executes (enumerated) plus Hypothesis-drawn k; both directions; start state warm (both calls "
        "made once before) or cold (forked from a process that only imported the library). Points where library code is called back "
        "from foreign code holding a lock (a non-library frame between two library frames, or B not finishing while A is parked) are "
        "infeasible for 'B runs to completion' and are counted separately. Oracle: A's and B's results equal their results when run "
        "alone from the same start state. Non-trivial = the preemption happens below the API entry point (inside library frames "
        "that already read or wrote shared state); distinct on (pair, file, line).")
ASSUMPTIONS = ["one preemption per schedule, B to completion (the property's schedule class); schedules with two or more preemptions are not explored",
               "frozen clock", "results alone are taken in a forked child from the same start state; pairs whose sequential orders disagree are C03's subject and skipped"]
ESSENTIAL = ["pair:error-path", "pair:zone-vs-other", "pair:formats-vs-plain", "pair:same-config", "pair:differ-base-or-prefs", "pair:differ-language-order", "pair:differ-skip-normalize", "pair:parse-vs-search",
             "start:warm", "start:cold", "preempted-in-library", "direction:AB", "direction:BA"]

NOW = dt.datetime(2015, 6, 15, 10, 30)
PKG = os.path.join(REPO, "dateparser") + os.sep
GRACE_S = 4.0

# (class, callA, callB) in c03 step form
_S_EQ = {"PREFER_DATES_FROM": "past"}
PAIRS = [
    ("same-config", ["parse", "12 janvier 2020", None, ["fr"], None, None, None], ["parse", "3 mars 2015", None, ["fr"], None, None, None]),
    ("same-config", ["parse", "02-03-2016", None, ["en"], None, None, {"DATE_ORDER": "DMY"}], ["parse", "yesterday", None, ["en"], None, None, {"DATE_ORDER": "DMY"}]),
    ("same-config", ["parse", "12 enero 2020", None, ["es", "fr"], None, None, None], ["parse", "12 janvier 2020", None, ["es", "fr"], None, None, None]),
    ("differ-base-or-prefs", ["parse", "yesterday", None, ["en"], None, None, {"RELATIVE_BASE": [2000, 1, 1, 0, 0, 0, 0]}],
     ["parse", "yesterday", None, ["en"], None, None, {"RELATIVE_BASE": [2010, 5, 5, 0, 0, 0, 0]}]),
    ("differ-base-or-prefs", ["parse", "March", None, ["en"], None, None, {"PREFER_DATES_FROM": "past"}],
     ["parse", "March", None, ["en"], None, None, {"PREFER_DATES_FROM": "future"}]),
    ("differ-base-or-prefs", ["parse", "10:00", None, ["en"], None, None, {"TIMEZONE": "UTC+3", "RETURN_AS_TIMEZONE_AWARE": True}],
     ["parse", "10:00", None, ["en"], None, None, {"TIMEZONE": "UTC-5", "RETURN_AS_TIMEZONE_AWARE": True}]),
    ("differ-language-order", ["parse", "02-03-2016", None, ["fr"], None, None, None], ["parse", "02-03-2016", None, ["en"], None, None, None]),
    ("differ-language-order", ["parse", "02-03-2016", None, ["fr"], None, None, dict(_S_EQ)], ["parse", "02-03-2016", None, ["tl"], None, None, dict(_S_EQ)]),
    ("differ-language-order", ["parse", "10/11/12", None, ["ja"], None, None, dict(_S_EQ)], ["parse", "10/11/12", None, ["tl"], None, None, dict(_S_EQ)]),
    ("differ-language-order", ["parse", "02-03-2016", None, ["en"], None, None, {"DATE_ORDER": "YMD"}], ["parse", "02-03-2016", None, ["de"], None, None, None]),
    ("differ-skip-normalize", ["parse", "27 Haziran 1981 de", None, ["tr"], None, None, {"SKIP_TOKENS": ["de"]}],
     ["parse", "27 Haziran 1981 de", None, ["tr"], None, None, None]),
    ("differ-skip-normalize", ["parse", "12 février 2020", None, ["fr"], None, None, {"NORMALIZE": False}], ["parse", "12 fevrier 2020", None, ["fr"], None, None, None]),
    ("parse-vs-search", ["parse", "yesterday", None, ["en"], None, None, None],
     ["search", "It was launched on 4 October 1957. We remembered it 2 days ago, yesterday.", ["en"], None, False]),
    ("parse-vs-search", ["search", "Le 12 janvier 2020. Puis hier.", ["fr"], {"DATE_ORDER": "DMY"}, False],
     ["parse", "hier", None, ["fr"], None, None, {"DATE_ORDER": "DMY"}]),
    # a string that names a zone against one that names another zone or none (anything kept between popping the zone and
    # applying it must be per call)
    ("zone-vs-other", ["parse", "2015-02-03 14:05 EST", None, ["en"], None, None, None], ["parse", "3 February 2015 10:00", None, ["en"], None, None, None]),
    ("zone-vs-other", ["parse", "3 Feb 2015 14:05 +0530", None, ["en"], None, None, None], ["parse", "10 March 2020 10:00 PST", None, ["en"], None, None, None]),
    ("zone-vs-other", ["parse", "2 hours ago UTC+3", None, ["en"], None, None, {"RELATIVE_BASE": [2020, 6, 15, 12, 0, 0, 0]}],
     ["parse", "yesterday 10:00 EST", None, ["en"], None, None, {"RELATIVE_BASE": [2020, 6, 15, 12, 0, 0, 0]}]),
    # a call with custom date_formats (translation that keeps the formatting) against an ordinary call in the same language
    ("formats-vs-plain", ["parse", "03, février 01", ["%y, %B %d"], ["fr"], None, None, None], ["parse", "12 mars 2015", None, ["fr"], None, None, None]),
    ("formats-vs-plain", ["parse", "Dienstag; 3. März 2015", ["%A; %d. %B %Y"], ["de"], None, None, None], ["parse", "3 März 2015 14:05", None, ["de"], None, None, None]),
    ("formats-vs-plain", ["parse", "2015|enero|12", ["%Y|%B|%d"], ["es"], None, None, {"PREFER_DATES_FROM": "past"}],
     ["parse", "12 enero 2015", None, ["es"], None, None, {"PREFER_DATES_FROM": "past"}]),
    # one call ends on an internal error path (a date at the end of the range that overflows during zone arithmetic, a day that
    # does not exist) while the other, with the same settings dict and another date order, is in flight: whatever the error
    # path forgets to undo on shared objects is visible to the other call
    ("error-path", ["parse", "02/03/2020 10:00", None, ["en"], None, None, {"TIMEZONE": "UTC", "TO_TIMEZONE": "Asia/Tokyo"}],
     ["parse", "31/12/9999 23:00", None, ["fr"], None, None, {"TIMEZONE": "UTC", "TO_TIMEZONE": "Asia/Tokyo"}]),
    ("error-path", ["parse", "02/03/2020 10:00", None, ["en"], None, None, dict(_S_EQ)], ["parse", "31/02/2020 10:00", None, ["fr"], None, None, dict(_S_EQ)]),
    # two calls that walk the same locale's tables (relative patterns, simplifications, the word dictionary) with different
    # multi-token strings: whatever a call re-orders, memoises or promotes inside a per-locale container while the other call is
    # iterating over it shows here (the strings hit different patterns and have further tokens after the first match)
    ("same-locale-tables", ["parse", "2 weeks ago, 10:30", None, ["en"], None, None, None], ["parse", "in 3 days 14:00", None, ["en"], None, None, None]),
    ("same-locale-tables", ["parse", "il y a 2 semaines, 10:30", None, ["fr"], None, None, None], ["parse", "dans 3 jours 14:00", None, ["fr"], None, None, None]),
    ("same-locale-tables", ["parse", "1 year, 2 months ago at 5 pm", None, ["en"], None, None, {"RELATIVE_BASE": [2020, 2, 29, 12, 0, 0, 0]}],
     ["parse", "in 2 hours 30 minutes", None, ["en"], None, None, {"RELATIVE_BASE": [2020, 2, 29, 12, 0, 0, 0]}]),
    ("same-locale-tables", ["parse", "Tuesday, 3 February 2015 at 2:05 pm", None, ["en"], None, None, None],
     ["parse", "Fri, 12 Dec 2014 10:55:50", None, ["en"], None, None, None]),
    ("same-locale-tables", ["parse", "2 часа назад, 10:30", None, ["ru"], None, None, {"NORMALIZE": False}],
     ["parse", "через 3 дня в 14:00", None, ["ru"], None, None, {"NORMALIZE": False}]),
    # (two concurrent search_dates calls are not paired: they reproduce, with hundreds of distinct wrong hit lists, the recorded
    # finding that search_dates keeps its running RELATIVE_BASE in the shared Settings object — pairs 12 and 13 pin that down)
    # tiny cache limits: whatever is evicted (split-regex caches, the registry of shared Settings objects, per-locale memos) when
    # another call registers something new must not be something an in-flight call has just looked up
    ("small-cache-limit", ["parse", "3 March 2004 10:30", None, ["en"], None, None, {"CACHE_SIZE_LIMIT": 1, "RELATIVE_BASE": [2000, 1, 1, 0, 0, 0, 0]}],
     ["parse", "5 May 2010", None, ["en"], None, None, {"CACHE_SIZE_LIMIT": 1, "RELATIVE_BASE": [2010, 5, 5, 0, 0, 0, 0]}]),
    ("small-cache-limit", ["parse", "12 janvier 2020", None, ["fr"], None, None, {"CACHE_SIZE_LIMIT": 2}],
     ["parse", "3 März 2015 14:05", None, ["de"], None, None, {"CACHE_SIZE_LIMIT": 2, "PREFER_DATES_FROM": "past"}]),
    # plain dateparser.parse(text): no languages, no settings — every such call goes through the one module-level default parser
    ("default-parser", ["parse", "5 mars 2021 10:00 PST", None, None, None, None, None], ["parse", "15 janvier 2020", None, None, None, None, None]),
    ("default-parser", ["parse", "3 März 2015 14:05 EST", None, None, None, None, None], ["parse", "2 days ago UTC+3", None, None, None, None, None]),
    ("calendar-vs-parse", ["calendar", "jalali", "جمعه سی ام اسفند ۱۳۸۷"], ["parse", "12 بهمن 1394", None, ["fa"], None, None, None]),
]


def _is_lib(fn):
    return fn.startswith(PKG)


def _locked_callback(frame):
    """True if a non-library frame sits between two library frames: library code is being called back from foreign code
    (e.g. the _getlang lambda that _strptime calls under its cache lock)."""
    seen_lib = False
    gap = False
    f = frame
    while f is not None:
        lib = _is_lib(f.f_code.co_filename)
        if lib:
            if seen_lib and gap:
                return True
            seen_lib = True
        elif seen_lib:
            gap = True
        f = f.f_back
    return False


def _trace_events(stepA, warm):
    """Run A alone under the tracer; return [(file, line, depth_in_lib)] of its library line events."""
    def fn():
        clock.freeze(NOW)
        env = {"parsers": {}}
        ev = []

        def local(frame, event, arg):
            if event == "line":
                # calling context (the three enclosing function names): the same line reached through another path (split()
                # under is_applicable vs. under translate(keep_formatting=True)) is a different preemption point
                b1 = frame.f_back
                b2 = b1.f_back if b1 else None
                b3 = b2.f_back if b2 else None
                ctxt = tuple(f.f_code.co_name for f in (b1, b2, b3) if f is not None)
                ev.append((frame.f_code.co_filename[len(PKG):], frame.f_lineno, frame.f_code.co_name, ctxt))
            return local

        def tracer(frame, event, arg):
            if event == "call" and _is_lib(frame.f_code.co_filename):
                return local
            return None
        sys.settrace(tracer)
        try:
            c03._call(tuple(stepA), env)
        finally:
            sys.settrace(None)
        return ev
    return fn


def _prepare(case):
    A = c03._untuple_step(tuple(c03._tuplify(x) for x in case["A"]))
    B = c03._untuple_step(tuple(c03._tuplify(x) for x in case["B"]))
    return A, B


def _schedule(A, B, k, warm):
    """Executed inside a forked child."""
    clock.freeze(NOW)
    if warm:
        c03._call(A, {"parsers": {}})
        c03._call(B, {"parsers": {}})
    start_b, b_done = threading.Event(), threading.Event()
    state = {"n": 0, "fired": False, "where": None, "infeasible": 0, "timeout": False}
    res = {}

    def local(frame, event, arg):
        if event == "line" and not state["fired"]:
            if state["n"] >= k:
                if _locked_callback(frame):
                    state["infeasible"] += 1
                else:
                    state["fired"] = True
                    state["where"] = (frame.f_code.co_filename[len(PKG):], frame.f_lineno, frame.f_code.co_name)
                    start_b.set()
                    if not b_done.wait(GRACE_S):
                        state["timeout"] = True
            state["n"] += 1
        return local

    def tracer(frame, event, arg):
        if event == "call" and not state["fired"] and _is_lib(frame.f_code.co_filename):
            return local
        return None

    def run_a():
        sys.settrace(tracer)
        try:
            res["A"] = c03._call(A, {"parsers": {}})
        finally:
            sys.settrace(None)
            start_b.set()  # A ended before reaching k: B simply runs afterwards

    def run_b():
        start_b.wait()
        try:
            res["B"] = c03._call(B, {"parsers": {}})
        finally:
            b_done.set()
    ta, tb = threading.Thread(target=run_a), threading.Thread(target=run_b)
    ta.start()
    tb.start()
    ta.join(60)
    tb.join(60)
    if ta.is_alive() or tb.is_alive():
        return {"hung": True, "state": state}
    return {"A": res.get("A"), "B": res.get("B"), "state": state}


class Zygote:
    """A forked helper that optionally warms up (runs A and B once) and then serves requests, each in a forked grandchild,
    so that every schedule starts from exactly the same process state without paying for the warm-up again."""

    def __init__(self, A, B, warm):
        self.req_r, self.req_w = os.pipe()
        self.res_r, self.res_w = os.pipe()
        self.pid = os.fork()
        if self.pid == 0:
            try:
                os.close(self.req_w)
                os.close(self.res_r)
                clock.freeze(NOW)
                if warm:
                    c03._call(A, {"parsers": {}})
                    c03._call(B, {"parsers": {}})
                fin = os.fdopen(self.req_r, "rb")
                fout = os.fdopen(self.res_w, "wb")
                while True:
                    try:
                        req = pickle.load(fin)
                    except EOFError:
                        break
                    if req[0] == "quit":
                        break
                    try:
                        if req[0] == "sched":
                            out = c03._run_in_child(lambda: _schedule(A, B, req[1], False))
                        elif req[0] == "alone_a":
                            out = c03._run_in_child(lambda: (clock.freeze(NOW), c03._call(A, {"parsers": {}}))[1])
                        elif req[0] == "alone_b":
                            out = c03._run_in_child(lambda: (clock.freeze(NOW), c03._call(B, {"parsers": {}}))[1])
                        elif req[0] == "events":
                            out = c03._run_in_child(_trace_events(A, False))
                        else:
                            out = ("ERROR", "unknown request")
                    except BaseException:
                        out = ("ERROR", traceback.format_exc())
                    pickle.dump(out, fout)
                    fout.flush()
            finally:
                os._exit(0)
        os.close(self.req_r)
        os.close(self.res_w)
        self.fout = os.fdopen(self.req_w, "wb")
        self.fin = os.fdopen(self.res_r, "rb")

    def ask(self, *req):
        pickle.dump(req, self.fout)
        self.fout.flush()
        out = pickle.load(self.fin)
        if isinstance(out, tuple) and out and out[0] == "ERROR":
            raise HarnessError("zygote request %r failed:\n%s" % (req, out[1]))
        return out

    def close(self):
        try:
            pickle.dump(("quit",), self.fout)
            self.fout.flush()
            self.fout.close()
            self.fin.close()
        except Exception:
            pass
        try:
            os.waitpid(self.pid, 0)
        except Exception:
            pass


_zygotes = {}


def zygote(A, B, warm):
    key = (repr(A), repr(B), warm)
    z = _zygotes.get(key)
    if z is None:
        while len(_zygotes) >= 3:
            _zygotes.pop(next(iter(_zygotes))).close()
        z = Zygote(A, B, warm)
        _zygotes[key] = z
    return z


_alone = {}


def _alone_results(A, B, warm):
    key = (repr(A), repr(B), warm)
    if key not in _alone:
        z = zygote(A, B, warm)
        a, b = z.ask("alone_a"), z.ask("alone_b")
        seq_ok = True
        if not warm:
            def fn_ab():
                clock.freeze(NOW)
                x = c03._call(A, {"parsers": {}})
                y = c03._call(B, {"parsers": {}})
                return x, y

            def fn_ba():
                clock.freeze(NOW)
                y = c03._call(B, {"parsers": {}})
                x = c03._call(A, {"parsers": {}})
                return x, y
            seq_ok = c03._run_in_child(fn_ab) == c03._run_in_child(fn_ba) == (a, b)
        _alone[key] = (a, b, seq_ok)
    return _alone[key]


_events = {}


def events_of(A, B, warm):
    key = (repr(A), repr(B), warm)
    if key not in _events:
        _events[key] = zygote(A, B, warm).ask("events")
    return _events[key]


def check_case(case):
    A, B = _prepare(case)
    warm = case["warm"]
    k = case["k"]
    cls = ["pair:" + case["cls"], "start:" + ("warm" if warm else "cold"), "direction:" + case.get("dir", "AB")]
    a_alone, b_alone, seq_ok = _alone_results(A, B, warm)
    if not seq_ok:
        return {"ok": True, "skip": "sequential orders disagree (C03's subject)", "cls": cls}
    if k is None:
        ev = events_of(A, B, warm)
        if not ev:
            return {"ok": True, "skip": "A executes no library line", "cls": cls}
        k = case["kfrac"] % len(ev)
    out = zygote(A, B, warm).ask("sched", k)
    if out.get("hung"):
        return {"ok": True, "skip": "threads did not finish (lock held at the preemption point)", "cls": cls + ["infeasible:hung"]}
    stt = out["state"]
    if stt["timeout"]:
        cls.append("infeasible:timeout")
        return {"ok": True, "skip": "B could not finish while A was parked (A holds a lock B needs): infeasible point", "cls": cls}
    if stt["infeasible"]:
        cls.append("infeasible:locked-callback-skipped")
    key = None
    if stt["fired"] and stt["where"]:
        fn = stt["where"][2]
        if fn not in ("parse", "wrapper", "search_dates", "__init__", "get_date_data"):
            cls.append("preempted-in-library")
        key = (case["pair"], case.get("dir", "AB"), warm, stt["where"][0], stt["where"][1])
    else:
        cls.append("no-preemption(A-ended-first)")
    wrong = []
    if out["A"] != a_alone:
        wrong.append("A")
    if out["B"] != b_alone:
        wrong.append("B")
    if wrong:
        # bucket = the specific pair, direction, side and wrong outcome, so that a recorded finding covers one concrete
        # failure and any other wrong result of the same pair is still reported
        def short(o):
            if o and o[0] == "ok" and isinstance(o[1], tuple) and o[1] and o[1][0] == "dt":
                return o[1][1][:16]
            if o and o[0] == "ok" and o[1] is None:
                return "None"
            if o and o[0] == "exc":
                return "raises-" + o[1] + ("@" + o[3] if len(o) > 3 and o[3] else "")
            # any other value (a list of search hits, a DateData): not spelled out in the key — the hundreds of distinct wrong
            # hit lists one race can produce would make the key depend on the seed
            return "other-value"
        return {"ok": False, "bucket": "%s:pair%d%s:%s-wrong:%s" % (case["cls"], case["pair"], case.get("dir", "AB"), "+".join(wrong),
                                                                   "/".join(short(out[w]) for w in wrong)),
                "detail": "A=%r preempted at event %d (%s) by B=%r (%s start): A -> %r (alone %r); B -> %r (alone %r)"
                          % (A, k, stt["where"], B, "warm" if warm else "cold", out["A"], a_alone, out["B"], b_alone),
                "key": key, "cls": cls}
    return {"ok": True, "key": key, "cls": cls}


def _pairs_with_dirs():
    out = []
    for i, (c, a, b) in enumerate(PAIRS):
        out.append((i, c, a, b, "AB"))
        out.append((i, c, b, a, "BA"))
    return out


def _distinct_lines(ctx):
    """first occurrence of every distinct (file, line) A executes, both directions, warm start (+ cold for a sample)"""
    def it(shard, nshards):
        combos = []
        for (i, c, a, b, d) in _pairs_with_dirs():
            for warm in (True, False):
                combos.append((i, c, a, b, d, warm))
        NCH = 6
        units = [(combo, ch) for ch in range(NCH) for combo in combos]
        for ui, ((i, c, a, b, d, warm), ch) in enumerate(units):
            if ui % nshards != shard:
                continue
            A = c03._untuple_step(tuple(c03._tuplify(x) for x in a))
            Bx = c03._untuple_step(tuple(c03._tuplify(x) for x in b))
            ev = events_of(A, Bx, warm)
            first = {}
            for idx, e in enumerate(ev):
                first.setdefault((e[0], e[1], e[3] if len(e) > 3 else ()), idx)
            ks = sorted(first.values())
            if not warm:
                ks = ks[::max(1, len(ks) // 12)] if ctx.quick else ks[::3]
            elif ctx.quick:
                ks = ks[::2] if derive_seed(ctx.seed, i) % 2 else ks[1::2]
            for k in ks[ch::NCH]:
                yield {"pair": i, "cls": c, "A": a, "B": b, "dir": d, "warm": warm, "k": k}
    return it


@st.composite
def random_k(draw):
    i, c, a, b, d = draw(st.sampled_from(_pairs_with_dirs()))
    return {"pair": i, "cls": c, "A": a, "B": b, "dir": d, "warm": draw(st.sampled_from([True] * 9 + [False])), "k": None,
            "kfrac": draw(st.integers(0, 10 ** 6))}


def stages(ctx):
    return [Stage("distinct_lines", "enum", cases=_distinct_lines(ctx), exhaustive=False),
            Stage("random_k", "hyp", strategy=random_k(), examples=ctx.n(1500, 60000))]
