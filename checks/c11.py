"""C11 — a timezone written in the string yields exactly that offset (DESIGN.md §4 C11)."""
import copy
import datetime as dt
import pickle

from hypothesis import strategies as st

from dateparser.date import DateDataParser
from vlib import gen, tz as vtz
from vlib.runner import Stage, derive_seed

ID = "C11"
RULE = ("Complete walk over the source timezone table: all supported UTC offsets x spellings {+HHMM, +HH:MM, UTC+HH:MM, "
        "GMT+HH:MM, UTC+H:MM, GMT+H:MM, UTC+HHMM, GMT+HHMM and for whole hours UTC+H, GMT+H, UTC+HH, GMT+HH} and all distinct "
        "abbreviations (upper and lower case; names listed with conflicting offsets excluded and counted) x date-time bodies "
        "(ISO, 'D Month YYYY HH:MM', 12-hour; datetimes derived from VERIF_SEED in the walk, drawn by Hypothesis in the "
        "sampling stage) x position {end, parenthesised, UTC/GMT offset before a trailing '(ABBR)'} x {languages=['en'], "
        "autodetect}. Oracle: aware result, utcoffset == the offset listed in timezones.timezone_info_list, wall clock == the "
        "body, pickle/copy/deepcopy round-trip equal with equal utcoffset and tzname; bodies without a zone give naive "
        "results. Every case is non-trivial; distinct on (zone spelling, body shape, position, language mode).")
ASSUMPTIONS = ["expected offsets come from the source table dateparser/timezones.py (C16 ties it to the loaded pickle)",
               "process TZ=UTC", "a bare '+HHMM' followed by '(ABBR)' is not a listed spelling: run and counted, not asserted"]
ESSENTIAL = ["zone:offset", "zone:abbr", "pos:end", "pos:paren", "pos:before-paren", "lang:auto", "control:naive", "case:lower"]

MONTHS = ["January", "February", "March", "April", "May", "June", "July", "August", "September", "October",
          "November", "December"]
BODIES = ["iso", "dmy_hm", "mdy_12h", "iso_T", "mdy_12h_hour", "rfc_12h_hour"]
WD = ["Mon", "Tue", "Wed", "Thu", "Fri", "Sat", "Sun"]


def body(shape, t):
    y, m, d, H, M, S = t[:6]
    if shape == "iso":
        return "%04d-%02d-%02d %02d:%02d:%02d" % (y, m, d, H, M, S), [y, m, d, H, M, S]
    if shape == "iso_T":
        return "%04d-%02d-%02dT%02d:%02d:%02d" % (y, m, d, H, M, S), [y, m, d, H, M, S]
    if shape == "dmy_hm":
        return "%d %s %04d %02d:%02d" % (d, MONTHS[m - 1], y, H, M), [y, m, d, H, M, 0]
    h12 = H % 12 or 12
    if shape == "mdy_12h_hour":  # a clock time written without minutes ('10 PM'): no HH:MM anywhere in the body
        return "%s %d, %04d %d %s" % (MONTHS[m - 1], d, y, h12, "AM" if H < 12 else "PM"), [y, m, d, H, 0, 0]
    if shape == "rfc_12h_hour":
        return "%s, %02d %s %04d %d %s" % (WD[dt.date(y, m, d).weekday()], d, MONTHS[m - 1][:3], y, h12, "am" if H < 12 else "pm"), [y, m, d, H, 0, 0]
    return "%s %d, %04d %d:%02d %s" % (MONTHS[m - 1], d, y, h12, M, "AM" if H < 12 else "PM"), [y, m, d, H, M, 0]


import re
_TRAILING_OK = re.compile(r"^(?:UTC|GMT)[+-]\d{2}:?\d{2}$")
_zones = []


def zones():
    """[(kind, spelling, seconds)]"""
    if _zones:
        return _zones
    offs, abbrs, conflicts = vtz.source_tables()
    for name, secs in sorted(offs.items()):
        sign = name[3]
        hh, mm = name[4:].split(":")
        sp = {sign + hh + mm, sign + hh + ":" + mm}
        for pre in ("UTC", "GMT"):
            sp.add(pre + sign + hh + ":" + mm)
            sp.add(pre + sign + str(int(hh)) + ":" + mm)
            sp.add(pre + sign + hh + mm)
            if mm == "00":
                sp.add(pre + sign + str(int(hh)))
                sp.add(pre + sign + hh)
        for s in sorted(sp):
            _zones.append(("offset", s, secs))
    for name, secs in sorted(abbrs.items()):
        if name in conflicts:
            continue
        _zones.append(("abbr", name, secs))
        if name.lower() != name:
            _zones.append(("abbr", name.lower(), secs))
    return _zones


_P = {}


def _parser(mode):
    if mode not in _P:
        _P[mode] = DateDataParser(languages=["en"]) if mode == "en" else DateDataParser()
    return _P[mode]


def check_case(case):
    t = case["t"]
    b, wall = body(case["body"], t)
    mode = case["lang"]
    cls = ["lang:" + mode, "body:" + case["body"]]
    if (t[0], t[1], t[2]) in ((1, 1, 1), (9999, 12, 31)):
        cls.append("body:range-edge")
    if case["zone"] is None:
        cls.append("control:naive")
        dd = _parser(mode).get_date_data(b)
        got = dd.date_obj
        key = ("control", case["body"], mode)
        if got != dt.datetime(*wall) or got.tzinfo is not None:
            return {"ok": False, "bucket": "control", "detail": "%r -> %r, expected naive %r" % (b, got, dt.datetime(*wall)),
                    "key": key, "cls": cls}
        return {"ok": True, "key": key, "cls": cls}
    kind, spelling, secs = case["zone"]
    pos = case["pos"]
    cls += ["zone:" + kind, "pos:" + pos]
    if kind == "abbr" and spelling.lower() == spelling and spelling.upper() != spelling:
        cls.append("case:lower")
    if pos == "end":
        s = b + " " + spelling
    elif pos == "paren":
        s = b + " (" + spelling + ")"
    else:
        s = b + " " + spelling + " (" + case["trail"] + ")"
    assert_it = True
    if pos == "before-paren" and not _TRAILING_OK.match(spelling):
        # only the UTC/GMT+HH[:]MM spelling is listed with a trailing-text pattern in the source table
        assert_it = False
    dd = _parser(mode).get_date_data(s)
    got = dd.date_obj
    key = (spelling, case["body"], pos, mode)
    if not assert_it:
        return {"ok": True, "skip": "offset spelling without a trailing-text pattern before '(ABBR)' (informational: %s)" % ("parsed" if got else "None"), "cls": cls}

    def fail(what):
        name = spelling.upper() if kind == "abbr" else "offset"
        return {"ok": False, "bucket": ("abbr:%s" % name) if kind == "abbr" else "offset:%s:%s" % (pos, what),
                "detail": "%r (lang %s) -> %r; %s; listed offset %s s" % (s, mode, got, what, secs), "key": key, "cls": cls}
    if got is None:
        return fail("none")
    if got.tzinfo is None:
        return fail("naive")
    if got.utcoffset() != dt.timedelta(seconds=secs):
        return fail("wrong-offset")
    if got.replace(tzinfo=None) != dt.datetime(*wall):
        return fail("wrong-wall-clock")
    for label, clone in (("pickle", pickle.loads(pickle.dumps(got))), ("copy", copy.copy(got)), ("deepcopy", copy.deepcopy(got))):
        if clone != got or clone.utcoffset() != got.utcoffset() or clone.tzname() != got.tzname() \
                or clone.replace(tzinfo=None) != got.replace(tzinfo=None):
            return fail(label + "-roundtrip")
    return {"ok": True, "key": key, "cls": cls}


def check_conflict(case):
    """A name the table lists with several offsets (LMT) has no single 'listed offset'; what remains unarguable: the offset is one
    of the listed ones, the wall clock is the body's, and the *same written zone gives the same offset whatever the body is*
    (ISO body, twelve 'D Month YYYY HH:MM:SS' bodies, a 12-hour body)."""
    from dateparser.timezones import timezone_info_list
    name, mode = case["name"], case["lang"]
    listed = {secs for n, secs in timezone_info_list[1]["timezones"] if n.lower() == name.lower()}
    y, d, H, M, S = case["t"]
    bodies = [("%04d-%02d-%02d %02d:%02d:%02d" % (y, 3, d, H, M, S), [y, 3, d, H, M, S])]
    for m in range(1, 13):
        bodies.append(("%d %s %04d %02d:%02d:%02d" % (d, MONTHS[m - 1], y, H, M, S), [y, m, d, H, M, S]))
    bodies.append(("%s %d, %04d at %d:%02d %s" % (MONTHS[2], d, y, H % 12 or 12, M, "AM" if H < 12 else "PM"), [y, 3, d, H, M, 0]))
    cls = ["zone:abbr-multiply-listed", "lang:" + mode]
    seen = {}
    for b, wall in bodies:
        s = b + " " + name
        got = _parser(mode).get_date_data(s).date_obj
        if got is None or got.tzinfo is None:
            return {"ok": False, "bucket": "multi-listed:%s:none-or-naive" % name.upper(), "detail": "%r (lang %s) -> %r" % (s, mode, got),
                    "key": (name, mode), "cls": cls}
        off = int(got.utcoffset().total_seconds())
        if off not in listed or got.replace(tzinfo=None) != dt.datetime(*wall):
            return {"ok": False, "bucket": "multi-listed:%s:not-a-listed-offset-or-wall-clock" % name.upper(),
                    "detail": "%r (lang %s) -> %r; listed offsets %s" % (s, mode, got, sorted(listed)), "key": (name, mode), "cls": cls}
        seen.setdefault(off, s)
    if len(seen) > 1:
        return {"ok": False, "bucket": "multi-listed:%s:offset-depends-on-the-body" % name.upper(),
                "detail": "the same written zone %r gives different offsets: %r" % (name, seen), "key": (name, mode), "cls": cls}
    return {"ok": True, "key": (name, mode, case["t"][0]), "cls": cls}


def _conflict_cases(ctx):
    def it(shard, nshards):
        _, _, conflicts = vtz.source_tables()
        i = 0
        for name in sorted(conflicts):
            for spelled in (name, name.lower()):
                for mode in ("en", "auto"):
                    for j in range(ctx.n(3, 12)):
                        i += 1
                        if i % nshards != shard:
                            continue
                        h = derive_seed(ctx.seed, "cf", name, j)
                        yield {"name": spelled, "lang": mode, "t": [1971 + h % 66, 1 + (h >> 16) % 28, (h >> 24) % 24, (h >> 32) % 60, (h >> 40) % 60]}
    return it


def _t(seed, *parts):
    h = derive_seed(seed, *parts)
    y = 1971 + h % 66
    m = 1 + (h >> 8) % 12
    d = 1 + (h >> 16) % 28
    return [y, m, d, (h >> 24) % 24, (h >> 32) % 60, (h >> 40) % 60]


def _walk(ctx):
    def it(shard, nshards):
        zs = zones()
        nb = ctx.n(2, 24)
        i = 0
        for zi, z in enumerate(zs):
            for bi in range(nb):
                shape = BODIES[(zi + bi) % len(BODIES)]
                for mode in (("en", "auto") if (bi == 0 or not ctx.quick) else ("en",)):
                    positions = ["end"] + (["paren"] if z[0] == "abbr" else []) + (
                        ["before-paren"] if z[0] == "offset" else [])
                    for pos in positions:
                        i += 1
                        if i % nshards != shard:
                            continue
                        yield {"t": _t(ctx.seed, z[1], bi, mode, pos), "body": shape, "lang": mode, "zone": list(z), "pos": pos,
                               "trail": ["IST", "EST", "CET", "PST"][(zi + bi) % 4]}
        if shard == 0:
            for shape in BODIES:
                for mode in ("en", "auto"):
                    for j in range(6):
                        yield {"t": _t(ctx.seed, "ctl", shape, j), "body": shape, "lang": mode, "zone": None, "pos": None}
    return it


@st.composite
def sampled(draw):
    zs = zones()
    z = draw(st.one_of(st.none(), st.sampled_from(zs), st.sampled_from(zs), st.sampled_from(zs)))
    t = draw(gen.datetimes(1000, 9999, us=False))[:6]
    if draw(st.integers(0, 5)) == 0:
        # the first / last 15 hours of the representable range: the written wall clock is representable, the same instant in
        # UTC (or in another zone) is not — nothing in "exactly that offset, exactly those fields" needs that instant
        secs_ = draw(st.one_of(st.integers(0, 15 * 3600), st.sampled_from([0, 1, 59, 60, 1800, 3599, 3600, 12 * 3600, 14 * 3600])))
        e = (dt.datetime.min + dt.timedelta(seconds=secs_)) if draw(st.booleans()) else (
            dt.datetime.max.replace(microsecond=0) - dt.timedelta(seconds=secs_))
        t = [e.year, e.month, e.day, e.hour, e.minute, e.second]
    c = {"t": t, "body": draw(st.sampled_from(BODIES)), "lang": draw(st.sampled_from(["en", "en", "auto"])),
         "zone": list(z) if z else None, "pos": None}
    if z:
        c["pos"] = draw(st.sampled_from(["end", "paren"] if z[0] == "abbr" else ["end", "before-paren"]))
        c["trail"] = draw(st.sampled_from(["IST", "EST", "CET", "PST"]))
    return c


def stages(ctx):
    return [Stage("table_walk", "enum", cases=_walk(ctx), exhaustive=True),
            Stage("multiply_listed", "enum", cases=_conflict_cases(ctx), exhaustive=True, check=check_conflict),
            Stage("sampled", "hyp", strategy=sampled(), examples=ctx.n(5000, 80000))]
