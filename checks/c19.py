"""C19 — import survives a missing, empty or truncated on-disk timezone cache (DESIGN.md §4 C19).

Fault enumeration: every fault is injected into a *copy* of the cache (never /repo).  Level 1 calls
timezone_parser._load_offsets(path, None) — exactly what import does — in a forked worker.  Level 2
(extra phase) validates that model with real `python -c "import dateparser"` subprocesses against a
full package copy."""
import os
import pickle
import pickletools
import shutil
import subprocess
import sys
import tempfile

from hypothesis import strategies as st

from vlib.runner import REPO, HarnessError, Stage, derive_seed

ID = "C19"
LEVEL = "fault_enumeration"
RULE = ("Faults = every prefix length k in 0..N of the shipped N-byte cache file (thorough: all k; quick: k in "
        "{0,1,2,N-1,N}, every pickle opcode boundary +-1 (pickletools.genops), and a seeded sample), plus: file missing, "
        "random bytes, valid pickles of the wrong shape (3-tuple, dict, None), prefix + garbage tail. Oracle per fault: "
        "the load raises nothing; the table left in the module (names, regex patterns, flags, offsets, both search "
        "regexes) equals the table rebuilt from source; the file on disk afterwards unpickles completely to an equal "
        "table; a second load does not rebuild. Non-trivial = the file really is damaged (k != N); distinct = distinct "
        "fault (kind, k, content hash). Level 2 re-runs a subset with real interpreter imports.")
ASSUMPTIONS = ["an interrupted or concurrent write of the single open(..,'wb')+pickle.dump leaves a prefix of the full file",
               "the directory stays writable (running as root, a read-only directory cannot be simulated here)"]
ESSENTIAL = ["prefix", "missing", "k=0", "garbage", "crash-in-write", "crash:crashed"]

_state = {}


def _cache_bytes():
    if "bytes" not in _state:
        with open(os.path.join(REPO, "dateparser", "data", "dateparser_tz_cache.pkl"), "rb") as f:
            _state["bytes"] = f.read()
    return _state["bytes"]


def _rebuilt():
    """Reference table = what an import with the intact shipped cache yields (the property: the same table whatever state
    the cache is in).  Read straight from the shipped pickle, not through build_tz_offsets, so that a change to the builder
    cannot move the reference together with the result.  (That the shipped pickle equals the source is C16's subject.)"""
    if "rebuilt" not in _state:
        h, offs, s1, s2 = pickle.loads(_cache_bytes())
        _state["rebuilt"] = (_sig(offs), s1.pattern)
    return _state["rebuilt"]


def _sig(offs):
    return [(n, i["regex"].pattern, int(i["regex"].flags), i["offset"]) for n, i in offs]


def _tmpdir():
    if "tmp" not in _state:
        # pool workers are terminated without atexit: everything lives under one directory named after the
        # runner's pid, which extra_phase() (run in the parent after the stages) removes
        base = os.path.join(tempfile.gettempdir(), "c19_run_%d" % _state.get("owner", os.getppid()))
        os.makedirs(base, exist_ok=True)
        _state["tmp"] = tempfile.mkdtemp(prefix="w%d_" % os.getpid(), dir=base)
    return _state["tmp"]


def _content(case):
    data = _cache_bytes()
    kind = case["kind"]
    if kind == "prefix":
        return data[: case["k"]]
    if kind == "missing":
        return None
    if kind == "garbage":
        return bytes(case["bytes"])
    if kind == "prefix+garbage":
        return data[: case["k"]] + bytes(case["bytes"])
    if kind == "wrongshape":
        obj = {"tuple3": (1, 2, 3), "dict": {"a": 1}, "none": None, "tuple5": (1, 2, 3, 4, 5), "int": 7}[case["shape"]]
        return pickle.dumps(obj, protocol=5)
    raise HarnessError("unknown fault %r" % (case,))


def check_case(case):
    from dateparser import timezone_parser as tp
    import regex as re
    kind = case["kind"]
    content = _content(case if kind != "crash-in-write" else case["start"])
    N = len(_cache_bytes())
    # every case starts from an empty directory (whatever an earlier case's write protocol left beside the cache is gone)
    for fn in os.listdir(_tmpdir()):
        os.remove(os.path.join(_tmpdir(), fn))
    path = os.path.join(_tmpdir(), "dateparser_tz_cache.pkl")
    if content is not None:
        with open(path, "wb") as f:
            f.write(content)
    # the library calls _load_offsets with its own CACHE_PATH object (a pathlib.Path today): pass the same type
    path = type(tp.CACHE_PATH)(path) if not isinstance(tp.CACHE_PATH, str) else path
    cls = [kind]
    if kind == "crash-in-write":
        # phase 1: a process that has to rebuild and write the cache dies inside the library's own write, after `budget`
        # bytes (or at the rename/replace that ends the write, if the library uses one).  Whatever that leaves on disk — a
        # prefix of the cache, a temporary sibling — is the state the next import finds.
        reached = _crash_in_write(tp, path, case["budget"])
        cls.append("crash:" + reached)
        cls.append("crash-budget:" + ("0" if case["budget"] == 0 else "rename" if case["budget"] >= 10 ** 9 else "mid"))
    if kind == "prefix":
        cls.append("k=0" if case["k"] == 0 else "k=N" if case["k"] == N else "k=N-1" if case["k"] == N - 1 else "0<k<N")
    damaged = not (kind == "prefix" and case["k"] == N)
    key = (kind, case.get("k"), case.get("shape"), case.get("budget"), hash(content)) if damaged else None
    saved = (tp._tz_offsets, tp._search_regex, tp._search_regex_ignorecase)
    calls = [0]
    real_build = tp.build_tz_offsets

    def counting(parts):
        calls[0] += 1
        return real_build(parts)

    tp.build_tz_offsets = counting
    fail = None
    try:
        try:
            tp._load_offsets(path, None)
        except BaseException as e:  # noqa: the property says import succeeds, whatever the file holds
            fail = ("raises", "load raises %s: %s" % (type(e).__name__, str(e)[:120]))
        if not fail:
            want_sig, want_search = _rebuilt()
            try:
                got = _sig(tp._tz_offsets)
                ok = (got == want_sig and tp._search_regex.pattern == want_search
                      and tp._search_regex_ignorecase.pattern == want_search
                      and bool(tp._search_regex_ignorecase.flags & re.IGNORECASE)
                      and not bool(tp._search_regex.flags & re.IGNORECASE))
            except Exception as e:
                ok = False
            if not ok:
                fail = ("table", "table after load differs from the table rebuilt from source")
        if not fail:
            try:
                with open(str(path), "rb") as f:
                    obj = pickle.load(f)
                    rest = f.read()
                h, offs, s1, s2 = obj
                # (bytes after the pickle's STOP opcode are never read by the loader: a complete, equal table followed by stray
                # bytes is a complete cache — found as a false alarm of this check by the thorough tier: prefix N-2 + b'.\x00')
                if _sig(offs) != want_sig or s1.pattern != want_search or s2.pattern != want_search:
                    fail = ("disk", "cache on disk after load is not an equal, complete table")
            except Exception as e:
                fail = ("disk", "cache on disk after load does not unpickle: %s" % type(e).__name__)
        if not fail:
            before = calls[0]
            try:
                tp._load_offsets(path, None)
            except BaseException as e:  # noqa
                fail = ("second", "second load raises %s" % type(e).__name__)
            if not fail and calls[0] != before:
                fail = ("second", "second load rebuilt the table again (cache was not repaired)")
            if not fail and _sig(tp._tz_offsets) != want_sig:
                fail = ("second", "second load yields a different table")
    finally:
        tp.build_tz_offsets = real_build
        tp._tz_offsets, tp._search_regex, tp._search_regex_ignorecase = saved
    if fail:
        return {"ok": False, "bucket": "%s:%s" % (kind if kind != "prefix" else "truncated", fail[0]),
                "detail": "%s -> %s" % ({k: v for k, v in case.items() if k != "bytes"}, fail[1]), "key": key, "cls": cls}
    return {"ok": True, "key": key, "cls": cls}


class _DyingFile:
    """File wrapper that lets `budget` more bytes through and then ends the process without any clean-up (a crash)."""

    def __init__(self, f, left):
        self._f, self._left = f, left

    def write(self, b):
        b = bytes(b)
        if len(b) > self._left[0]:
            self._f.write(b[: self._left[0]])
            self._f.flush()
            os._exit(17)
        self._left[0] -= len(b)
        return self._f.write(b)

    def __getattr__(self, name):
        return getattr(self._f, name)

    def __enter__(self):
        return self

    def __exit__(self, *a):
        return self._f.__exit__(*a)


def _crash_in_write(tp, path, budget):
    """fork; in the child every file opened for writing dies after `budget` bytes in total, and os.replace/os.rename die when the
    budget says 'rename' (>= 10**9).  Returns 'crashed' or 'completed' (the write never reached the crash point)."""
    pid = os.fork()
    if pid == 0:
        try:
            import builtins
            import io
            left = [budget]
            real_open = builtins.open

            def dying_open(file, mode="r", *a, **kw):
                f = real_open(file, mode, *a, **kw)
                if any(ch in mode for ch in "wxa+") and "b" in mode:
                    return _DyingFile(f, left)
                return f
            builtins.open = dying_open
            io.open = dying_open
            if budget >= 10 ** 9:
                def dying_rename(*a, **kw):
                    os._exit(17)
                os.replace = dying_rename
                os.rename = dying_rename
            try:
                tp._load_offsets(path, None)
            except BaseException:
                os._exit(3)
        finally:
            os._exit(0)
    _, status = os.waitpid(pid, 0)
    code = os.waitstatus_to_exitcode(status)
    return "crashed" if code == 17 else "completed" if code == 0 else "raised"


def _boundaries():
    data = _cache_bytes()
    out = set()
    try:
        for op, arg, pos in pickletools.genops(data):
            out.add(pos)
    except Exception:
        pass
    return out


def _structural_cuts(seed, N):
    """Structure-aware interruption points (quick tier): a cut at every byte *inside* the encoding of
    (a) every FRAME opcode (opcode byte + 8-byte length) and the 12 bytes around it, and (b) for every distinct opcode kind of
    the file, its first three, last three and two seeded instances (up to 14 bytes of each: opcode byte, length field, the
    first payload bytes, and the last two payload bytes).  A reader that inspects the damaged file (frame walking, length
    sniffing, header checks) fails at such interior points and nowhere else; uniform samples of 134 k lengths miss them."""
    data = _cache_bytes()
    try:
        ops = list(pickletools.genops(data))
    except Exception:
        return set()
    ends = [p for _, _, p in ops[1:]] + [len(data)]
    by = {}
    for (op, arg, pos), end in zip(ops, ends):
        by.setdefault(op.name, []).append((pos, end))
    out = set()
    for name, inst in by.items():
        if name == "FRAME":
            for pos, end in inst:
                out.update(range(max(0, pos - 2), min(N, pos + 13)))
            continue
        pick = inst[:3] + inst[-3:]
        x = derive_seed(seed, "op", name)
        for i in range(2):
            x = derive_seed(x, i)
            pick.append(inst[x % len(inst)])
        for pos, end in pick:
            out.update(range(pos, min(end, pos + 12) + 1))
            out.update((max(pos, end - 2), max(pos, end - 1)))
    return {k for k in out if 0 <= k <= N}


def _prefix_cases(ctx):
    N = len(_cache_bytes())

    def cases(shard, nshards):
        if not ctx.quick:
            ks = range(shard, N + 1, nshards)
        else:
            sel = {0, 1, 2, 3, N - 2, N - 1, N}
            b = sorted(_boundaries())
            # every opcode boundary of the (short) header region, a seeded third of the rest, +-1
            for i, pos in enumerate(b):
                if pos < 400 or derive_seed(ctx.seed, "b", pos) % 60 == 0:
                    sel.update((max(0, pos - 1), pos, min(N, pos + 1)))
            sel.update(_structural_cuts(ctx.seed, N))
            x = derive_seed(ctx.seed, "sample")
            for i in range(400):
                x = derive_seed(x, i)
                sel.add(x % (N + 1))
            ks = [k for i, k in enumerate(sorted(sel)) if i % nshards == shard]
        for k in ks:
            yield {"kind": "prefix", "k": k}
        if shard == 1 % nshards:
            # the library's own write is killed after `budget` bytes (10**9 = at the final rename, if there is one), from
            # each start state that makes an import rebuild and write the cache
            budgets = [0, 1, 100, 4097, 65535, 65536, 65537, 100000, N - 1000, 10 ** 9] if ctx.quick else (
                [0, 1, 2, 10 ** 9] + list(range(100, N + 300, 1499)))
            for start in ({"kind": "missing"}, {"kind": "prefix", "k": 0}, {"kind": "prefix", "k": 70001}):
                for b in budgets:
                    yield {"kind": "crash-in-write", "start": start, "budget": b}
        if shard == 0:
            yield {"kind": "missing"}
            for shape in ("tuple3", "dict", "none", "tuple5", "int"):
                yield {"kind": "wrongshape", "shape": shape}
    return cases


@st.composite
def junk(draw):
    N = len(_cache_bytes())
    if draw(st.booleans()):
        return {"kind": "garbage", "bytes": list(draw(st.binary(min_size=0, max_size=64)))}
    return {"kind": "prefix+garbage", "k": draw(st.integers(0, N - 1)),
            "bytes": list(draw(st.binary(min_size=1, max_size=16)))}


def stages(ctx):
    return [Stage("prefixes", "enum", cases=_prefix_cases(ctx), exhaustive=not ctx.quick),
            Stage("junk", "hyp", strategy=junk(), examples=ctx.n(200, 20000))]


# -- level 2: real imports ----------------------------------------------------------------------

_L2 = r"""
import sys, pickle, os
try:
    import dateparser
    from dateparser import timezone_parser as tp
    with open(os.environ['C19_REFERENCE'], 'rb') as f:
        h0, offs0, s10, s20 = pickle.load(f)
    want = [(n, i['regex'].pattern, int(i['regex'].flags), i['offset']) for n, i in offs0]
    got = [(n, i['regex'].pattern, int(i['regex'].flags), i['offset']) for n, i in tp._tz_offsets]
    ok = got == want and tp._search_regex.pattern == s10.pattern
    r = dateparser.parse('2015-02-03 14:05 EST')
    ok = ok and r is not None and r.utcoffset().total_seconds() == -18000
    with open(tp.CACHE_PATH, 'rb') as f:
        h, offs, s1, s2 = pickle.load(f)
    ok2 = [(n, i['regex'].pattern, int(i['regex'].flags), i['offset']) for n, i in offs] == want
    print('RESULT', 'ok' if ok else 'table-differs', 'disk-ok' if ok2 else 'disk-bad')
except BaseException as e:
    print('RESULT raises', type(e).__name__)
"""


def extra_phase(ctx, known, total):
    """Level 2: damage the cache inside a full copy of the package and import it in a new interpreter."""
    shutil.rmtree(os.path.join(tempfile.gettempdir(), "c19_run_%d" % os.getpid()), ignore_errors=True)
    tmp = tempfile.mkdtemp(prefix="c19_l2_")
    info = {"level2_faults": 0, "level2_failures": 0}
    try:
        pkg = os.path.join(tmp, "dateparser")
        shutil.copytree(os.path.join(REPO, "dateparser"), pkg, ignore=shutil.ignore_patterns("__pycache__"))
        shutil.copytree(os.path.join(REPO, "dateparser_data"), os.path.join(tmp, "dateparser_data"),
                        ignore=shutil.ignore_patterns("cldr_language_data", "supplementary_language_data", "__pycache__"))
        cache = os.path.join(pkg, "data", "dateparser_tz_cache.pkl")
        data = _cache_bytes()
        N = len(data)
        ks = [0, 1, N - 1, N // 2, 57, N]
        x = derive_seed(ctx.seed, "l2")
        for i in range(ctx.n(10, 120)):
            x = derive_seed(x, i)
            ks.append(x % N)
        faults = [("prefix", k) for k in ks] + [("missing", None), ("garbage", None)]
        env = dict(os.environ)
        env["PYTHONPATH"] = tmp
        env.pop("BUILD_TZ_CACHE", None)
        ref = os.path.join(tmp, "reference_cache.pkl")
        with open(ref, "wb") as f:
            f.write(_cache_bytes())
        env["C19_REFERENCE"] = ref
        procs = []
        # each fault needs its own package copy only for the cache file: run sequentially per copy, 8 copies in parallel
        copies = [tmp]
        for j in range(1, 8):
            c = os.path.join(tmp, "copy%d" % j)
            os.makedirs(c)
            shutil.copytree(pkg, os.path.join(c, "dateparser"))
            shutil.copytree(os.path.join(tmp, "dateparser_data"), os.path.join(c, "dateparser_data"))
            copies.append(c)

        def run_one(root, fault):
            kind, k = fault
            cpath = os.path.join(root, "dateparser", "data", "dateparser_tz_cache.pkl")
            if os.path.exists(cpath):
                os.remove(cpath)
            if kind == "prefix":
                open(cpath, "wb").write(data[:k])
            elif kind == "garbage":
                open(cpath, "wb").write(b"\x00garbage\xff" * 10)
            e = dict(env)
            e["PYTHONPATH"] = root
            p1 = subprocess.run([sys.executable, "-c", _L2], capture_output=True, env=e, cwd=root, timeout=300)
            m1 = os.path.getmtime(cpath) if os.path.exists(cpath) else None
            p2 = subprocess.run([sys.executable, "-c", _L2], capture_output=True, env=e, cwd=root, timeout=300)
            m2 = os.path.getmtime(cpath) if os.path.exists(cpath) else None
            return fault, p1.stdout.decode().strip(), p2.stdout.decode().strip(), m1 == m2, p1.stderr.decode()[-300:]

        from concurrent.futures import ThreadPoolExecutor
        chunks = [faults[i::len(copies)] for i in range(len(copies))]

        def run_chunk(args):
            root, fl = args
            return [run_one(root, f) for f in fl]

        with ThreadPoolExecutor(len(copies)) as ex:
            results = [r for rs in ex.map(run_chunk, zip(copies, chunks)) for r in rs]
        samples = []
        for fault, o1, o2, same_mtime, err in results:
            info["level2_faults"] += 1
            good = o1 == "RESULT ok disk-ok" and o2 == "RESULT ok disk-ok" and same_mtime
            if len(samples) < 4:
                samples.append({"fault": fault, "first_import": o1, "second_import": o2, "cache_untouched_by_second": same_mtime})
            if not good:
                info["level2_failures"] += 1
                kind = "truncated" if fault[0] == "prefix" and fault[1] != N else fault[0]
                what = "raises" if "raises" in o1 else "second" if o1 == "RESULT ok disk-ok" else "table"
                b = "%s:%s" % (kind, what)
                case = {"kind": fault[0], "k": fault[1]} if fault[0] == "prefix" else (
                    {"kind": "missing"} if fault[0] == "missing" else {"kind": "garbage", "bytes": list(b"\x00garbage\xff" * 10)})
                total.failures.setdefault(b, (case, "real import with fault %r: first=%r second=%r cache untouched by second=%s %s"
                                              % (fault, o1, o2, same_mtime, err)))
        info["level2_samples"] = samples
    finally:
        shutil.rmtree(tmp, ignore_errors=True)
    return info
