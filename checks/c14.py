"""C14 — custom date_formats round-trip what the format expresses (DESIGN.md §4 C14)."""
import datetime as dt

from hypothesis import strategies as st

from dateparser.date import DateDataParser
from vlib import clock, data, gen
from vlib.gen import mdays
from vlib.runner import Stage, derive_seed

ID = "C14"
RULE = ("Hypothesis builds a format from distinct strptime directives of {%Y %y %m %d %B %b %A %a %H %I %p %M %S %f %j} joined "
        "by separators (constraints that keep it unambiguous: one year/month/weekday/hour directive at most, %I with %p, a day "
        "only with a month, %j instead of month+day, %y only for 1969-2068, year-less formats not on Feb 29), plus ~40 "
        "hand-listed shapes; a datetime in 1900..2100 is rendered by harness code and parsed with date_formats=[format] under a "
        "frozen system clock and a PREFER_DAY_OF_MONTH/PREFER_MONTH_OF_YEAR pair. Oracle: the datetime restricted to what the "
        "format expresses; missing day/month per preference (current = frozen clock), missing year = frozen current year; "
        "period by finest calendar part. Localised stage: %B/%b (and %A/%a) rendered with every single-meaning month/weekday "
        "name of every language (languages=[L]). Raw-precedence stage: strings that match the format raw but would parse "
        "differently heuristically. Non-trivial = the format lacks a part, or has %f, %I/%p, %y, %j or a localised name; "
        "distinct on (format, language, name).")
ASSUMPTIONS = ["process TZ=UTC", "localised names that are also English month/weekday names or abbreviations with another English meaning are excluded (the raw format match comes first, as the property says)",
               "weekday names are rendered consistently with the date"]
ESSENTIAL = ["has:%f", "has:%I", "has:%y", "has:%j", "partial:no-year", "partial:no-day", "partial:no-month", "localized", "raw-precedence", "format-list",
             "hand-listed"]

MONTHS = ["January", "February", "March", "April", "May", "June", "July", "August", "September", "October",
          "November", "December"]
WDAYS = ["Monday", "Tuesday", "Wednesday", "Thursday", "Friday", "Saturday", "Sunday"]
PREFS = ["current", "first", "last"]

HAND = ["%Y-%m-%d", "%d/%m/%Y", "%m/%d/%Y", "%Y/%m/%d %H:%M:%S", "%d.%m.%Y %H:%M", "%d %B %Y", "%B %d, %Y", "%b %d %Y",
        "%d-%b-%Y", "%A, %d %B %Y", "%a %b %d %H:%M:%S %Y", "%Y-%m-%dT%H:%M:%S", "%Y-%m-%d %H:%M:%S.%f", "%I:%M %p %d/%m/%Y",
        "%d/%m/%y", "%y%m%d", "%Y%m%d", "%Y%m%d%H%M%S", "%B %Y", "%b %Y", "%m/%Y", "%Y", "%Y %H:%M", "%d %B", "%B %d", "%d/%m",
        "%H:%M", "%H:%M:%S", "%I:%M %p", "%I %p", "%H:%M:%S.%f", "%d %b", "%A %d %B", "%j %Y", "%Y-%j", "%Y %j %H:%M",
        "%d %B %Y %I:%M:%S %p", "%y-%m-%d", "%m-%d-%y %H:%M", "%S.%f", "%d %m %Y",
        "%Y-%m-%d %H:%M:%S,%f", "%d.%m.%Y %H.%M.%S.%f", "%m/%d/%Y %I.%M.%S.%f %p", "%d %B %Y %H:%M:%S,%f"]


def directives(fmt):
    out = []
    i = 0
    while i < len(fmt):
        if fmt[i] == "%":
            out.append(fmt[i:i + 2])
            i += 2
        else:
            i += 1
    return out


def render(fmt, t, names=None, f_digits=6):
    y, m, d, H, M, S, us = t
    date = dt.date(y, m, d)
    names = names or {}
    rep = {
        "%Y": "%04d" % y, "%y": "%02d" % (y % 100), "%m": "%02d" % m, "%d": "%02d" % d,
        "%B": names.get("%B", MONTHS[m - 1]), "%b": names.get("%b", MONTHS[m - 1][:3]),
        "%A": names.get("%A", WDAYS[date.weekday()]), "%a": names.get("%a", WDAYS[date.weekday()][:3]),
        "%H": "%02d" % H, "%I": "%02d" % (H % 12 or 12), "%p": "AM" if H < 12 else "PM", "%M": "%02d" % M, "%S": "%02d" % S,
        "%f": ("%06d" % us)[:f_digits], "%j": "%03d" % date.timetuple().tm_yday,
    }
    out = []
    i = 0
    while i < len(fmt):
        if fmt[i] == "%":
            out.append(rep[fmt[i:i + 2]])
            i += 2
        else:
            out.append(fmt[i])
            i += 1
    return "".join(out)


def expected(fmt, t, now, pday, pmonth, f_digits=6):
    ds = set(directives(fmt))
    y, m, d, H, M, S, us = t
    has_year = bool(ds & {"%Y", "%y"})
    has_month = bool(ds & {"%m", "%B", "%b", "%j"})
    has_day = bool(ds & {"%d", "%j"})
    ey = y if has_year else now.year
    em = m if has_month else {"first": 1, "last": 12, "current": now.month}[pmonth]
    if has_day:
        ed = d
    else:
        last = mdays(y if has_year else 1900, em)
        # the parser completes the day on the strptime default year (1900) when the year is absent, then sets the year
        ed = {"first": 1, "last": last, "current": min(now.day, last)}[pday]
    eH = H if ds & {"%H", "%I"} else 0
    eM = M if "%M" in ds else 0
    eS = S if "%S" in ds else 0
    eus = int((("%06d" % us)[:f_digits] + "000000")[:6]) if "%f" in ds else 0
    period = "day" if has_day else "month" if has_month else "year"
    try:
        return dt.datetime(ey, em, ed, eH, eM, eS, eus), period
    except ValueError:
        return None, period


def check_case(case):
    fmt, t = case["fmt"], case["t"]
    now = gen.to_dt(case["now"])
    pday, pmonth = case["pday"], case["pmonth"]
    lang = case.get("lang")
    names = case.get("names")
    fd = case.get("f_digits", 6)
    s = case.get("raw") or render(fmt, t, names, fd)
    ds = set(directives(fmt))
    cls = []
    if case.get("hand"):
        cls.append("hand-listed")
    for dname in ("%f", "%I", "%y", "%j"):
        if dname in ds:
            cls.append("has:" + dname)
    if not ds & {"%Y", "%y"}:
        cls.append("partial:no-year")
    if not ds & {"%d", "%j"}:
        cls.append("partial:no-day")
    if not ds & {"%m", "%B", "%b", "%j"}:
        cls.append("partial:no-month")
    if names:
        cls.append("localized")
    if case.get("raw"):
        cls.append("raw-precedence")
    if case.get("decoys") and tuple(case["decoys"]) != (0, 0):
        cls.append("format-list")
    want, wperiod = expected(fmt, t, now, pday, pmonth, fd)
    if want is None:
        return {"ok": True, "skip": "completed date does not exist", "cls": cls}
    settings = {"PREFER_DAY_OF_MONTH": pday, "PREFER_MONTH_OF_YEAR": pmonth}
    clock.freeze(now)
    try:
        # decoys: formats that cannot match the rendered string (their separators never occur in it) listed before and/or
        # after the real one — "one of the given formats" must be found wherever it stands in the list
        pre, post = case.get("decoys") or (0, 0)
        fmts = DECOYS[:pre] + [fmt] + (DECOYS[-post:] if post else [])
        dd = DateDataParser(languages=[lang or "en"], settings=settings).get_date_data(s, fmts)
    finally:
        clock.freeze(None)
    nontrivial = any(c.startswith(("has:", "partial:", "localized", "raw")) for c in cls)
    key = (fmt, lang, tuple(sorted(names.items())) if names else None) if nontrivial else None
    got = dd.date_obj
    if got != want:
        if names:
            nm = sorted(names.items())[0]
            b = "localized|%s|%s" % (lang, data.nfkd(nm[1].lower()))
        elif "%j" in ds:
            b = "day-of-year-ignored" if (got is not None and (got.month, got.day) != (want.month, want.day)) else "value:%j"
        else:
            b = "value:%s" % ("+".join(sorted(c[8:] for c in cls if c.startswith("partial:"))) or "full")
        return {"ok": False, "bucket": b, "detail": "%r date_formats=[%r] lang=%s now=%s prefs=(%s,%s) -> %r, expected %r"
                % (s, fmt, lang, now, pday, pmonth, got, want), "key": key, "cls": cls}
    if not names and dd.period != wperiod:
        return {"ok": False, "bucket": "period:%s->%s" % (wperiod, dd.period),
                "detail": "%r date_formats=[%r] -> period %r, expected %r" % (s, fmt, dd.period, wperiod), "key": key, "cls": cls}
    return {"ok": True, "key": key, "cls": cls}


SEPS = [" ", "-", "/", ".", ", ", ":", " at "]
DECOYS = ["%Y|%m|%d", "@%H@%M", "%d~%m~%Y"]


@st.composite
def formats(draw):
    parts = []
    mode = draw(st.integers(0, 9))
    use_j = mode == 0
    year = draw(st.sampled_from(["%Y", "%Y", "%y", None]))
    if use_j:
        year = year or "%Y"  # a day-of-year without a year does not determine month and day (leap years)
        date_parts = ["%j"]
    else:
        month = draw(st.sampled_from(["%m", "%B", "%b", None]))
        day = draw(st.sampled_from(["%d", "%d", None])) if month else None
        date_parts = [p for p in (day, month) if p]
    if year:
        date_parts.append(year)
    wd = draw(st.sampled_from([None, None, "%A", "%a"]))
    if wd and any(p in date_parts for p in ("%d", "%j")) and year:
        date_parts.append(wd)
    date_parts = draw(st.permutations(date_parts))
    tparts = []
    tk = draw(st.integers(0, 5))
    if tk >= 2:
        h12 = draw(st.booleans())
        tparts.append("%I" if h12 else "%H")
        if draw(st.booleans()):
            tparts.append("%M")
            if draw(st.booleans()):
                tparts.append("%S")
                if draw(st.integers(0, 2)) == 0:
                    tparts.append("%f")
        if h12:
            tparts.append("%p")
    if not date_parts and not tparts:
        date_parts = ["%Y"]
    out = ""
    for i, p in enumerate(date_parts):
        if i:
            out += draw(st.sampled_from([" ", "-", "/", ".", ", "]))
        out += p
    if tparts:
        if out:
            out += draw(st.sampled_from([" ", "T", " at ", ", "]))
        # the separators inside the clock time are drawn too ('14.05.09,250000', '14h05'): a format is whatever its author wrote
        tsep = draw(st.sampled_from([":", ":", ":", ".", "-", "h"]))
        fsep = draw(st.sampled_from([".", ".", ",", " "]))
        for i, p in enumerate(tparts):
            if i:
                out += fsep if p == "%f" else " " if p == "%p" else tsep
            out += p
    return out


@st.composite
def cases(draw):
    hand = draw(st.integers(0, 3)) == 0
    fmt = draw(st.sampled_from(HAND)) if hand else draw(formats())
    ds = set(directives(fmt))
    t = draw(gen.datetimes(1900, 2100))
    if "%y" in ds:
        t[0] = 1969 + t[0] % 100
        t[2] = min(t[2], mdays(t[0], t[1]))
    if not ds & {"%Y", "%y"} and (t[1], t[2]) == (2, 29):
        t[2] = 28
    now = draw(gen.ref_times(1970, 2100))
    return {"fmt": fmt, "t": t, "now": now, "pday": draw(st.sampled_from(PREFS)), "pmonth": draw(st.sampled_from(PREFS)),
            "hand": hand, "f_digits": draw(st.sampled_from([6, 6, 3, 1])),
            "decoys": draw(st.sampled_from([[0, 0], [0, 0], [1, 0], [0, 1], [2, 1], [3, 0], [0, 2]]))}


# -- localised names ---------------------------------------------------------------------------------
LOC_MONTH_FORMATS = ["%d %B %Y", "%B %d, %Y %H:%M", "%d %B %Y %H:%M:%S"]
LOC_WD_FORMATS = ["%A %d.%m.%Y", "%A, %d/%m/%Y %H:%M"]
_EN = {}


def english_words():
    if not _EN:
        for i, mname in enumerate(MONTHS):
            _EN[mname.lower()] = ("month", i)
            _EN[mname[:3].lower()] = ("month", i)
        for i, w in enumerate(WDAYS):
            _EN[w.lower()] = ("wd", i)
            _EN[w[:3].lower()] = ("wd", i)
    return _EN


def _localized(ctx):
    from checks import c05

    def it(shard, nshards):
        for i, lang in enumerate(data.language_order()):
            if i % nshards != shard:
                continue
            for key, name in c05.names_for(lang, True, True):
                is_month = key in data.MONTHS
                idx = data.MONTHS.index(key) if is_month else data.WEEKDAYS.index(key)
                en = english_words().get(name.lower())
                if en is not None and en != (("month" if is_month else "wd"), idx):
                    yield {"skip_case": "localised name is an English name with another meaning", "fmt": "%B", "t": [2000, 1, 1, 0, 0, 0, 0],
                           "now": [2020, 6, 15, 12, 0, 0, 0], "pday": "current", "pmonth": "current"}
                    continue
                allf = LOC_MONTH_FORMATS if is_month else LOC_WD_FORMATS
                fmts = allf if not ctx.quick else [allf[derive_seed(ctx.seed, lang, name) % len(allf)]]
                for fmt in fmts:
                    h = derive_seed(ctx.seed, lang, name, fmt)
                    y = 1950 + h % 120
                    if is_month:
                        m, d = idx + 1, 1 + (h >> 8) % 28
                    else:
                        # a date that falls on that weekday
                        base = dt.date(y, 1 + (h >> 8) % 12, 1 + (h >> 12) % 21)
                        base += dt.timedelta(days=(idx - base.weekday()) % 7)
                        y, m, d = base.year, base.month, base.day
                    t = [y, m, d, (h >> 16) % 24, (h >> 24) % 60, (h >> 32) % 60, 0]
                    yield {"fmt": fmt, "t": t, "now": [2020, 6, 15, 12, 0, 0, 0], "pday": "current", "pmonth": "current",
                           "lang": lang, "names": {"%B" if is_month else "%A": name}}
    return it


def check_localized(case):
    if case.get("skip_case"):
        return {"ok": True, "skip": case["skip_case"], "cls": ["localized-excluded"]}
    return check_case(case)


# -- raw-match precedence ----------------------------------------------------------------------------
@st.composite
def raw_cases(draw):
    a, b, c = draw(st.integers(1, 12)), draw(st.integers(1, 12)), draw(st.integers(1, 12))
    fmt = draw(st.sampled_from(["%y-%m-%d", "%d-%m-%y", "%m-%d-%y", "%y/%d/%m", "%d.%m.%y", "%y %m %d"]))
    order = directives(fmt)
    vals = dict(zip(order, (a, b, c)))
    sep = fmt[2]
    raw = sep.join("%02d" % v for v in (a, b, c))
    y = 2000 + vals["%y"]
    t = [y, vals["%m"], vals["%d"], 0, 0, 0, 0]
    return {"fmt": fmt, "t": t, "now": [2020, 6, 15, 12, 0, 0, 0], "pday": "current", "pmonth": "current", "raw": raw,
            "decoys": draw(st.sampled_from([[0, 0], [1, 0], [0, 1], [2, 2]]))}


def stages(ctx):
    return [Stage("formats", "hyp", strategy=cases(), examples=ctx.n(60000, 1200000)),
            Stage("localized", "enum", cases=_localized(ctx), exhaustive=not ctx.quick, check=check_localized),
            Stage("raw_precedence", "hyp", strategy=raw_cases(), examples=ctx.n(3000, 30000))]
