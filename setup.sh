#!/bin/sh
# Offline, idempotent: make sure hypothesis (and atheris for the coverage-guided stages) are importable
# by /venv/bin/python.  Falls back to a private --target dir if /venv is not writable.
HERE="$(cd "$(dirname "$0")" && pwd)"
PY=/venv/bin/python
W=/opt/veriftools/wheels
export PIP_NO_INDEX=1
for pkg in hypothesis atheris; do
  if ! PYTHONPATH="$HERE/.deps" "$PY" -c "import $pkg" 2>/dev/null; then
    /venv/bin/pip install --no-index --find-links "$W" "$pkg" >/dev/null 2>&1 \
      || /venv/bin/pip install --no-index --find-links "$W" --target "$HERE/.deps" "$pkg" >/dev/null 2>&1 \
      || echo "setup: could not install $pkg (checks that need it will report a harness error)"
  fi
done
PYTHONPATH="$HERE/.deps" "$PY" -c 'import hypothesis; print("hypothesis", hypothesis.__version__)' || exit 1
exit 0
